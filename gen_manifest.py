#!/usr/bin/env python3
"""Regenerates MANIFEST.json from the table below (kept in one place so that it stays valid)."""
import json, subprocess, os
HERE = os.path.dirname(os.path.abspath(__file__))

CLAIMED = {
 # id: (level category, level text, design ref, level note, technique)
 "C01": ("exploration",
         "Seeded deterministic simulation of k-hop transfers between knowing processes (real protobuf bytes, duplication, delay/reorder, fan-out); per-delivery invariant: visible tree shape and Error() at every node equal the origin's; history check: wire bytes are a fixpoint from the 2nd message on, and the first re-encoding equals the received message except in barrier/secondary-error layers. Faults: origin and relays observe (log/report/inspect) the error before sending it, relays wrap what they received in generated layers and send that on as a new flow, errnos arriving as sent by a peer of another architecture. Sampling, not proof.",
         "5/C01", "trusted: Go runtime, gogo/protobuf, the harness's tree walker; bounds depth<=7, <=24 nodes, <=8 hops",
         "deterministic simulation: seeded cluster/transport simulator with per-delivery invariants and shrinking replay tape"),
 "C04": ("exploration",
         "Seeded deterministic simulation of routes O -> U_1..U_m -> K where every intermediary has its own drawn subset of known types (registry sets installed by hook H1), plus a direct control route; per-delivery invariants at every unknowing process (text and shape per node, type names/marks, safe details of opaque layers, verbatim re-encoding of unknown wire nodes, whole-message equality when nothing is known); history check: the final knowing process observes exactly what the control observes (tree, Is row, accessors, stacks, %v, %+v); a quarter of the runs replay the route with the unknown families (and half of the time their payloads' type URLs) renamed on the wire, as the statement words it, and demand the same observations. Sampling, not proof.",
         "5/C04", "trusted: hook H1 models 'does not know a type' as absence of its registry entries (DESIGN.md 8.3); known findings listed in known_findings.json are not re-reported",
         "deterministic simulation: per-process type registries, seeded knowledge subsets and routes, per-delivery invariants + control-route history comparison"),
 "C02": ("exploration",
         "Seeded deterministic simulation in which an error and up to three references travel independent routes through knowing and unknowing processes and back to the origin; invariants per delivery: the Is row of the transferred error against the local reference pool equals the origin row at knowing processes (stdlib sentinels at unknowing ones), pairs that meet at a knowing process answer as at the origin, a transferred reference answers as the original unless the origin match is not explainable by mark equality (reference model of marks), no new match ever appears, IsAny equals the disjunction; with an errno leaf a quarter of the runs rewrite it as sent by a peer of another architecture and compare the standard library's sentinels. Sampling, not proof.",
         "5/C02", "trusted: reference model of mark equality (message + full type-mark chain, explicit marks from Mark) used only to decide which origin matches a copy can be expected to keep; text changes in transit are reported with the texts so that recorded C01/C04 findings are recognised",
         "deterministic simulation: multi-flow cluster simulation with per-delivery Is-row invariants against a mark-equality reference model"),
 "C11": ("exploration",
         "Seeded deterministic simulation of k-hop transfers (k<=8) between knowing processes with duplication and reordering; per-delivery invariant: every public accessor (hints, details, issue links, telemetry keys, domain, context tags, flags, HTTP/gRPC codes, OS predicates, one-line source), per-layer safe details (barrier/secondary layers excepted as the property states) and per-layer reportable stack frames equal their values before the first hop; origin and relays may observe the error before sending it, relays may wrap it in generated layers (new flow, reference values taken at the relay), errnos may arrive as sent by another architecture. Sampling, not proof.",
         "5/C11", "trusted: obs accessor wrappers; OS predicates are not compared when a visible layer answers them through its own methods although no decoder exists for its type (not a 'known type')",
         "deterministic simulation: cluster simulation with per-delivery accessor invariants"),
 "C13": ("exploration",
         "Seeded deterministic simulation of trees forced to contain multi-cause nodes, sent over routes of knowing and unknowing processes; per delivery: branch count/order/shape and branch texts, message tokens of every branch in %+v, Unwrap/UnwrapOnce nil at multi nodes, Is = self-match (reference model: identity, own Is method, mark equality) or some branch, IsAny = disjunction, As assigns the first node in reference depth-first branch order; at the origin Join drops nils and joins texts with newlines; every branch's entries are counted in %+v (one object may sit in two branches); one run in five uses hostile strings for the local semantics. Sampling, not proof.",
         "5/C13", "trusted: reference model of self-match and of the depth-first order; at unknowing processes texts are compared only for nodes whose text does not depend on how a multi-cause node renders (that is C04's subject)",
         "deterministic simulation: cluster simulation with per-delivery tree-semantics oracles against a reference model"),
 "C05": ("fault_enumeration",
         "Exhaustive enumeration, per decoder key read from the live registries, of payload faults x detail faults x message-type values x multi-cause children x carrier positions x leaf/wrapper form (one simulated delivery per case), plus seeded sequences of wire faults (payload/details/message type/hostile strings/garbled reportable strings/family swap) and protobuf-level byte fuzz on valid generated messages; oracle: DecodeError returns non-nil without panicking and the result survives every verb (panics recovered by fmt are detected in the output), redaction, every accessor, report building and re-encoding. The enumerated part is complete for the stated product; the seeded part is sampling.",
         "5/C05", "trusted: the exemplar table (one valid wire node per family, obtained by encoding real values) defines 'right payload type'; inputs that are not structurally complete (also inside payloads resolving to EncodedError) are discarded as the property's precondition says; gogo's global proto registry cannot be partitioned (DESIGN.md 8.3)",
         "deterministic simulation with fault injection: exhaustive wire-fault enumeration per registered decoder + seeded fault sequences and byte fuzz through the simulated transport"),
 "C03": ("exploration",
         "Seeded deterministic simulation with tainted inputs: every string entering through a channel the property lists as unsafe carries a unique token (hostile alphabet); the error is observed locally and after every hop over knowing and unknowing processes; invariant: no unsafe token occurs in Redact()ed %v/%+v renderings, GetAllSafeDetails / per-node GetSafeDetails, reportable payloads, type names and marks on the wire at any nesting level (nested payloads unpacked), the Sentry event JSON and extras; printf arguments use other verbs and positions than the defaults, values of application types (SafeFormatter with an unsafe part, Stringer) occur as arguments and tag values, strings of several hundred bytes, rarely chains of 130+ layers. Sampling, not proof.",
         "5/C03", "trusted: the channel table of the generator (which constructor slot is an unsafe channel; slots the statement does not list are neutral and not checked); substring search for alphanumeric tokens",
         "deterministic simulation: taint-token tracking through the simulated cluster with per-delivery leak invariants"),
 "C06": ("exploration",
         "Seeded deterministic simulation observing each generated error in its local, decoded and opaque states (the latter two produced by hops through knowing and unknowing processes); invariants: redactable %v/%s/%+v and Sprint have balanced, non-nested markers balanced on every line (hostile strings); for regular strings StripMarkers(redactable) equals the fmt rendering via Formattable; %q/%x/%X through redact expose no unsafe token, plain or hex, outside markers; fault: an unrelated formatting call whose method panics half-way (swallowed by fmt/redact) between two renderings of the same error, which must be equal. Sampling, not proof.",
         "5/C06", "trusted: marker scanner; 'refused' is read as 'no unsafe content outside markers' since the library documents refusal as %!verb(type)",
         "deterministic simulation: state-producing cluster simulation with per-delivery rendering invariants"),
 "C12": ("exploration",
         "Seeded deterministic simulation with tainted inputs (regular alphabet): every string entering through a channel the library declares safe carries a unique token; observed locally and after every hop between knowing processes; invariant: every safe token (not under a Mark reference), every layer's type name, every frame of every captured stack and every well-known sentinel text that the origin's report shows unredacted occurs in the Sentry event/extras or GetAllSafeDetails, also when asked a second time. Sampling, not proof.",
         "5/C12", "trusted: the channel table (constant messages, format strings, Safe() arguments, telemetry keys, domains, issue links, tag keys are 'declared safe'; Op/Net/syscall names and user SafeDetailers are neutral); one known finding (Safe() tag values in transferred multi-cause branches) is listed in known_findings.json",
         "deterministic simulation: taint-token tracking with per-delivery retention invariants"),
 "C07": ("exploration",
         "Seeded deterministic differential simulation: a tree containing barriers / secondary errors / Mark references and its twin (every hidden sub-tree of a barrier, secondary error or error argument replaced by a bare error with the same text) travel the same route over knowing and unknowing processes; per delivery the visible chain, root cause, every accessor, HasType/As for every hidden type, the nodes shown to If and Is/IsAny against every hidden layer and sentinel must agree; direct checks: Handled keeps the text, *WithMessage replaces it, Mark adds no accessor result and matches no inner layer of its reference, the hidden error stays visible in %+v locally and after transfer. Sampling, not proof.",
         "5/C07", "also: an empty replacement message must not hide the hidden error from %+v; at processes not knowing the barrier type the safe parts of the hidden error's own layers are visible in %+v; trusted: the twin construction; at processes not knowing barrierErr texts are compared modulo marker characters and Is is not compared (recorded C04 finding); accessors that are outermost-layer tests or defined through Is are excluded from the Mark check",
         "deterministic simulation: differential twin runs through the simulated cluster with per-delivery hiding invariants"),
 "C15": ("exploration",
         "Seeded deterministic simulation observing generated trees locally and after each hop between processes of which some may not know all types (stacks re-parsed from text), and re-wrapped by relays with live stacks; the report is compared with an oracle recomputed from public accessors over an independent pre-order walk: message prefix, one composition line per layer, one exception per stack-carrying layer outermost first with deep-equal frames and the domain as module (one synthetic exception when none), one 'error types' line per layer, nothing for nil. Sampling, not proof.",
         "5/C15", "independent oracles: source prefix from the per-layer reportable stacks, an exception for every live StackTrace() layer from its own frames, module from the outermost domain layer's details, 'error types' lines as at the origin; trusted: obs tree walker (same pre-order as documented: node, single cause, then multi-cause branches); line multiset comparison for the 'error types' extra",
         "deterministic simulation: cluster simulation with a recomputed-report oracle per delivery"),
 "C17": ("exploration",
         "Code versions simulated as registry sets built with hook H1 (never knew the type / original name / two alternative renames / chained renames of length 2 and 3 registered in every permutation, decoders registered afterwards). Exhaustive part: sender x optional intermediary x receiver x form x permutation on two fixed carriers; seeded part: 1..3 hops with the renamed node grafted into generated carrier trees and a second differently-versioned sender. Oracles: wire family name is the original key, GetTypeKey of the newest name is order-independent, decode yields the receiver's current type (opaque at unknowing ones), Is against a locally built equivalent, copies from different versions Is-equal both ways at every receiver, duplicate migration target rejected.",
         "5/C17", "also: renames changing the receiver kind, renamed multi-cause / generic / protobuf-message types, typed nil pointers, the library's own os.PathError rename, a pure package move, same-chain duplicate declarations; trusted: hook H1; the version table; Go types of all names are linked into one binary (DESIGN.md 8.3)",
         "deterministic simulation: multi-version cluster simulation (per-process registry sets), exhaustive configuration sweep + seeded carriers"),
 "C18": ("exploration",
         "Three layers seeded from the same tape. (1) Cooperative deterministic schedule: 16..32 real goroutines run the read-only observers on one shared value (local or decoded), exactly one at a time, switching only at yield points inserted into every statement of the library by a go/ast overlay generated from the working tree; a random-walk or PCT-style scheduler draws every switch from the tape (replayable, shrinkable); oracle: each result equals the solo result computed on an identical twin. (2) Immutability monitor: a reflective deep fingerprint of everything reachable from the shared value and of the registries is compared after every scheduler step. (3) Race detector: free-running goroutines released from one barrier in a -race build; a report becomes a VIOLATION whose replay file regenerates the same tree and op assignment. Sampling, not proof.",
         "5/C18", "trusted: the instrumenter (yields only inside cockroachdb/errors; a step inside fmt/redact/protobuf/sentry is atomic for layer 1), the exclusion list of dependency-owned atomic size caches in the fingerprint (sched.Excluded), the Go race detector; layer 3's interleaving is not controlled by the simulator",
         "deterministic simulation: cooperative seeded scheduler over compiled-in yield points + immutability monitor, complemented by a race-detector run"),
 "C20": ("exploration",
         "Real gRPC server (UnaryServerInterceptor) and clients (with and without UnaryClientInterceptor) over an in-memory listener whose connection writes are fragmented as a function of (seed, direction, stream offset); each run registers 1..4 generated trees, nil and two bare status errors with the Echo handler and issues 2..12 RPCs from 1..8 concurrent client goroutines; per RPC: nil stays nil, status errors keep code and message, any other error equals the same error transferred directly with EncodeError/DecodeError (visible tree with stacks and safe details, Is row, accessors, %v, %+v, re-encoded bytes) and a plain client sees the attached gRPC code (Unknown otherwise). Sampling, not proof.",
         "5/C20", "faults: caller context ended between the arrival of the reply and its processing (interceptor below the library's), contexts carrying log tags, status errors with details (known and unknown message types), relayed downstream statuses, a recovery middleware reporting server-side panics; trusted: google.golang.org/grpc and the HTTP/2 stack run for real on the in-memory network; goroutine interleaving inside gRPC is not decided by the simulator (per-RPC results are schedule-independent when the property holds); no transport faults beyond fragmentation since the property says nothing about failed RPCs",
         "deterministic simulation (partial): seeded workload and seeded stream fragmentation under real gRPC stacks, per-RPC differential oracle against the direct transfer"),
}

NOT_APPLICABLE = {
 "C08": "pure algebra of a binary function on in-process values: no schedule, clock, fault, peer or history whose variation could change the outcome (DESIGN.md 7)",
 "C09": "pure function of (value, verb, flags); no nondeterminism or fault surface for a simulator to control (DESIGN.md 7)",
 "C10": "pure function of constructor arguments (DESIGN.md 7)",
 "C14": "differential agreement of pure functions with stdlib/pkg-errors; no simulation dimension (DESIGN.md 7)",
 "C16": "property of call-site programs (stack depth arithmetic); no run-time nondeterminism (DESIGN.md 7)",
 "C19": "pure function of the chain (ordering/de-duplication of hints and details) (DESIGN.md 7)",
}

PENDING = {}

def main():
    props = [json.loads(l) for l in open(os.path.join(HERE, "properties.jsonl"))]
    ids = [p["id"] for p in props]
    checks = []
    for pid in ids:
        if pid in CLAIMED:
            cat, text, ref, note, tech = CLAIMED[pid]
            checks.append({
                "property_id": pid,
                "quick_cmd": f"./check {pid} quick",
                "thorough_cmd": f"./check {pid} thorough",
                "evidence_file": f"/verif/evidence/{pid}.json",
                "replay_cmd_template": "./check replay {path}",
                "engine": "errsim",
                "level_claimed": {"category": cat, "text": text, "design_ref": ref},
                "level_note": note,
                "technique": tech,
            })
    na = []
    for pid in ids:
        if pid in CLAIMED:
            continue
        if pid in NOT_APPLICABLE:
            na.append({"property_id": pid, "reason": NOT_APPLICABLE[pid]})
        else:
            na.append({"property_id": pid, "reason": PENDING.get(pid, "not claimed yet: the check for this property is still being built (simulation target per DESIGN.md 5)")})
    hooks_commits = subprocess.run(["git", "-C", "/repo", "log", "--format=%H", "--grep=^verif hook"], capture_output=True, text=True).stdout.split()
    m = {
        "version": 1,
        "setup_cmd": "./check build",
        "hooks": {
            "guard": "verif (Go build tag)",
            "enable": "go build -tags verif (done by ./check build; module errsim replaces github.com/cockroachdb/errors with /repo)",
            "baseline_off_cmd": "cd /repo && GOFLAGS=-mod=mod GOPROXY=off GOSUMDB=off GOTOOLCHAIN=local go test -vet=off -count=1 -timeout 25m ./...",
            "source_commits": hooks_commits,
            "add_only": True,
        },
        "engines": [{
            "name": "errsim",
            "path": "/verif/sim",
            "serves_properties": sorted(CLAIMED),
            "kind_free_text": "deterministic simulator: seeded choice tape, simulated processes with per-process type registries (hook H1), in-memory transport carrying real protobuf bytes with duplication/reordering/forwarding/wire-fault injection, per-delivery invariants and history oracles, tape shrinking and exact replay",
        }],
        "checks": checks,
        "not_applicable": na,
        "notes": "Exit codes of ./check: 0 held, 1 VIOLATION, 2 infrastructure trouble (never a VIOLATION), 3 replay not reproduced. known_findings.json lists recorded/fixed genuine defects.",
    }
    json.dump(m, open(os.path.join(HERE, "MANIFEST.json"), "w"), indent=1)
    print("claimed", sorted(CLAIMED), "n/a", [x["property_id"] for x in na])

if __name__ == "__main__":
    main()
