#!/usr/bin/env bash
# Runs the quick checks (C05 and C18 only against changes written for them) against every seeded change (scratch worktrees; /repo untouched)
# and writes /verif/seeded/MATRIX.txt. Usage: ./matrix.sh [glob]
cd "$(dirname "$0")"
out=seeded/MATRIX.txt
pat="${1:-seeded/C*}"
for d in $pat; do
  [ -f "$d/patch.diff" ] || continue
  line="$(basename "$d"):"
  label="$(basename "$d" | cut -d- -f1)"
  props=""
  for p in C01 C02 C03 C04 C05 C06 C07 C11 C12 C13 C15 C17 C18 C20; do
    # the two slowest checks only for changes written against them
    if { [ "$p" = C05 ] || [ "$p" = C18 ]; } && [ "$p" != "$label" ]; then continue; fi
    props="$props $p"
  done
  res="$(./eval_seeded.sh "$d" checks $props 2>&1 | grep -E '^C[0-9]+: ')"
  for p in C01 C02 C03 C04 C05 C06 C07 C11 C12 C13 C15 C17 C18 C20; do
    r="$(echo "$res" | grep "^$p: " | head -1)"
    case "$r" in *CAUGHT*) line="$line $p" ;; *TROUBLE*) line="$line $p(TROUBLE)" ;; esac
  done
  echo "$line" | tee -a "$out"
done
