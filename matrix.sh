#!/usr/bin/env bash
# Runs every quick check against every seeded change (scratch worktrees; /repo untouched)
# and writes /verif/seeded/MATRIX.txt. Usage: ./matrix.sh [glob]
cd "$(dirname "$0")"
out=seeded/MATRIX.txt
pat="${1:-seeded/C*}"
for d in $pat; do
  [ -f "$d/patch.diff" ] || continue
  line="$(basename "$d"):"
  res="$(./eval_seeded.sh "$d" checks 2>&1 | grep -E '^C[0-9]+: ')"
  for p in C01 C02 C03 C04 C05 C06 C07 C11 C12 C13 C15 C17 C18 C20; do
    r="$(echo "$res" | grep "^$p: " | head -1)"
    case "$r" in *CAUGHT*) line="$line $p" ;; *TROUBLE*) line="$line $p(TROUBLE)" ;; esac
  done
  echo "$line" | tee -a "$out"
done
