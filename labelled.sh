#!/usr/bin/env bash
# Runs, for every seeded change, the quick check of the property it was written against
# (scratch worktrees; /repo untouched) and writes seeded/RESULTS.txt.
cd "$(dirname "$0")"
out=seeded/RESULTS.txt
: > "$out"
for d in seeded/C*; do
  [ -f "$d/patch.diff" ] || continue
  label="$(basename "$d" | cut -d- -f1)"
  r="$(./eval_seeded.sh "$d" checks "$label" 2>&1 | grep -E "^$label: " | head -1 | cut -c1-260)"
  echo "$(basename "$d"): $r" | tee -a "$out"
done
