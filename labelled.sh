#!/usr/bin/env bash
# Runs, for every seeded change (or only those named on the command line), the
# quick check of the property it was written against (scratch worktrees;
# /repo untouched) and records the outcome in seeded/RESULTS.txt (one line per change).
cd "$(dirname "$0")"
out=seeded/RESULTS.txt
touch "$out"
if [ $# -gt 0 ]; then set -- "${@/#/seeded/}"; else set -- seeded/C*; fi
for d in "$@"; do
  [ -f "$d/patch.diff" ] || continue
  name="$(basename "$d")"
  label="${name%%-*}"
  r="$(./eval_seeded.sh "$d" checks "$label" 2>&1 | grep -E "^$label: " | head -1 | cut -c1-260)"
  grep -v "^$name: " "$out" > "$out.tmp" || true
  echo "$name: $r" | tee -a "$out.tmp"
  sort -o "$out" "$out.tmp"; rm -f "$out.tmp"
done
