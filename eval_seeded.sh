#!/usr/bin/env bash
# Evaluate one seeded change against the checks, without touching /repo.
#
#   ./eval_seeded.sh <dir-with-patch.diff-and-meta.json> [confirm|checks|all] [PROPS...]
#
# confirm: in a scratch worktree of /repo: patch applies, builds, pinned suite 244/244, demo fails with / passes without.
# checks : run the quick checks (default: all claimed properties) with VERIF_REPO pointing at the patched scratch copy;
#          prints one line per property: CAUGHT / missed / TROUBLE.
set -u
HERE="$(cd "$(dirname "${BASH_SOURCE[0]}")" && pwd)"
export GOFLAGS=-mod=mod GOPROXY=off GOSUMDB=off GOTOOLCHAIN=local
D="$(cd "$1" && pwd)"; MODE="${2:-all}"; shift; shift || true
PROPS=("$@")
[ ${#PROPS[@]} -eq 0 ] && PROPS=(C01 C02 C03 C04 C05 C06 C07 C11 C12 C13 C15 C17 C18 C20)
name="$(basename "$(dirname "$D")")-$(basename "$D")"
W="/root/scratch/seeded-$name"
cleanup() { git -C /repo worktree remove --force "$W" >/dev/null 2>&1; rm -rf "$W" "$HERE"/bin/errsim-_root_scratch_seeded-"$name"*; }
trap cleanup EXIT
mkdir -p /root/scratch
git -C /repo worktree remove --force "$W" >/dev/null 2>&1; rm -rf "$W"
git -C /repo worktree add -q --detach "$W" HEAD || { echo "cannot create worktree"; exit 2; }
demo_path="$(python3 -c 'import json,sys; print(json.load(open(sys.argv[1]+"/meta.json")).get("demo_path",""))' "$D")"
demo_cmd="$(python3 -c 'import json,sys; print(json.load(open(sys.argv[1]+"/meta.json")).get("demo_cmd",""))' "$D")"
demo_file="$(ls "$D"/*_test.go 2>/dev/null | head -1)"
ok=1
if [ "$MODE" = confirm ] || [ "$MODE" = all ]; then
  if [ -n "$demo_file" ] && [ -n "$demo_path" ]; then
    mkdir -p "$W/$(dirname "$demo_path")"; cp "$demo_file" "$W/$demo_path"
    (cd "$W" && eval "$demo_cmd" >/tmp/seeded-demo-clean.log 2>&1) && echo "confirm: demo passes on clean tree" || { echo "confirm: DEMO FAILS ON CLEAN TREE"; ok=0; }
  else
    echo "confirm: no demo file/path"; ok=0
  fi
  git -C "$W" apply "$D/patch.diff" || { echo "confirm: PATCH DOES NOT APPLY"; exit 2; }
  (cd "$W" && go build ./... ) || { echo "confirm: DOES NOT BUILD"; exit 2; }
  if [ -n "$demo_file" ] && [ -n "$demo_path" ]; then
    (cd "$W" && eval "$demo_cmd" >/tmp/seeded-demo-patched.log 2>&1) && { echo "confirm: DEMO PASSES WITH THE CHANGE"; ok=0; } || echo "confirm: demo fails with the change"
    rm -f "$W/$demo_path"
  fi
  python3 "$HERE/baseline_check.py" "$W" | tail -3 | tr '\n' ' '; echo
  python3 "$HERE/baseline_check.py" "$W" >/dev/null || { echo "confirm: PINNED SUITE FAILS"; ok=0; }
  [ $ok -eq 1 ] && echo "confirm: OK" || echo "confirm: NOT OK"
else
  git -C "$W" apply "$D/patch.diff" || { echo "PATCH DOES NOT APPLY"; exit 2; }
fi
if [ "$MODE" = checks ] || [ "$MODE" = all ]; then
  for p in "${PROPS[@]}"; do
    out="$(cd "$HERE" && VERIF_REPO="$W" VERIF_EVIDENCE_DIR=/root/scratch/ev-"$name" VERIF_REPLAY_DIR=/root/scratch/rp-"$name" ./check "$p" quick 2>&1)"; rc=$?
    case $rc in
      0) echo "$p: missed" ;;
      1) echo "$p: CAUGHT  $(echo "$out" | grep -E '^violation:' | head -2 | cut -c1-150 | tr '\n' ' ')" ;;
      *) echo "$p: TROUBLE rc=$rc $(echo "$out" | tail -3 | cut -c1-300 | tr '\n' ' ')" ;;
    esac
  done
  rm -rf /root/scratch/ev-"$name" /root/scratch/rp-"$name"
fi
[ $ok -eq 1 ]
