#!/usr/bin/env python3
"""Runs the repository's test suite (guard off unless --tags given) and checks that every
test of the pinned stable baseline passes. Usage: baseline_check.py [repo] [--tags verif]"""
import json, subprocess, sys, os
repo = "/repo"
tags = []
args = sys.argv[1:]
while args:
    a = args.pop(0)
    if a == "--tags":
        tags = ["-tags", args.pop(0)]
    else:
        repo = a
base = json.load(open("/root/.vp/BASELINE.json"))
stable = set(base["stable_pass"])
env = dict(os.environ, GOFLAGS="-mod=mod", GOPROXY="off", GOSUMDB="off", GOTOOLCHAIN="local")
p = subprocess.run(["go", "test"] + tags + ["-json", "-vet=off", "-count=1", "-timeout", "25m", "./..."],
                   cwd=repo, env=env, capture_output=True, text=True)
passed = set()
for line in p.stdout.splitlines():
    try:
        ev = json.loads(line)
    except Exception:
        continue
    if ev.get("Action") == "pass" and ev.get("Test"):
        passed.add(ev["Package"] + "::" + ev["Test"])
missing = sorted(stable - passed)
print(f"baseline: {len(stable & passed)}/{len(stable)} stable tests pass")
for m in missing:
    print("MISSING", m)
sys.exit(1 if missing else 0)
