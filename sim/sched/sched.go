package sched

import (
	"crypto/sha256"
	"encoding/hex"
	"fmt"
	"time"

	"errsim/tape"
)

// Task is one observer goroutine.
type Task struct {
	ID     int
	Name   string
	Fn     func() string
	Result string
	wake   chan struct{}
	done   bool
}

type event struct {
	task *Task
	done bool
	site int
}

// Sched runs tasks one at a time, switching only at yield points, with every
// decision drawn from the tape.
type Sched struct {
	T     *tape.Tape
	Tasks []*Task
	// Mode 0: random walk (switch with probability 1/Den at every yield);
	// Mode 1: PCT-style (switch exactly at the drawn yield counts).
	Mode      int
	Den       int
	PreemptAt map[int]bool
	// OnStep is called (on the scheduler goroutine, no task running) after
	// every switch and completion.
	OnStep func(last *Task, site int)

	// Stuck is set when the running task neither yielded nor finished within
	// Watchdog: it is blocked on a real synchronisation primitive held by a
	// parked task (the unchanged library has none on its read paths). The
	// run is then inconclusive for the cooperative layer, never a violation.
	Stuck    bool
	Watchdog time.Duration

	cur         *Task
	events      chan event
	Yields      int
	Preemptions int
	Pairs       map[[2]int]bool // distinct (site, next task's op) preemption pairs
	log         []byte
}

// Hook is the yield hook to install while Run executes.
func (s *Sched) Hook(site int) {
	t := s.cur
	if t == nil {
		return
	}
	s.Yields++
	sw := false
	if s.Mode == 0 {
		sw = s.T.Bool(1, s.Den)
	} else {
		sw = s.PreemptAt[s.Yields]
	}
	if !sw {
		return
	}
	s.events <- event{task: t, site: site}
	<-t.wake
}

func (s *Sched) runnable(except *Task) []*Task {
	var r []*Task
	for _, t := range s.Tasks {
		if !t.done && t != except {
			r = append(r, t)
		}
	}
	return r
}

// Run executes all tasks to completion under the drawn schedule.
func (s *Sched) Run() {
	s.events = make(chan event)
	s.Pairs = map[[2]int]bool{}
	started := map[*Task]bool{}
	start := func(t *Task) {
		s.cur = t
		if !started[t] {
			started[t] = true
			t.wake = make(chan struct{})
			go func() {
				t.Result = t.Fn()
				s.events <- event{task: t, done: true}
			}()
		} else {
			t.wake <- struct{}{}
		}
	}
	r := s.runnable(nil)
	if len(r) == 0 {
		return
	}
	start(r[s.T.Draw(len(r))])
	if s.Watchdog == 0 {
		s.Watchdog = 3 * time.Second
	}
	for {
		var ev event
		select {
		case ev = <-s.events:
		case <-time.After(s.Watchdog):
			s.Stuck = true
			s.cur = nil
			return
		}
		s.cur = nil
		if ev.done {
			ev.task.done = true
		} else {
			s.Preemptions++
		}
		if s.OnStep != nil {
			s.OnStep(ev.task, ev.site)
		}
		var cand []*Task
		if ev.done {
			cand = s.runnable(nil)
		} else {
			cand = s.runnable(ev.task)
			if len(cand) == 0 {
				cand = []*Task{ev.task}
			}
		}
		if len(cand) == 0 {
			return
		}
		next := cand[s.T.Draw(len(cand))]
		if !ev.done {
			s.Pairs[[2]int{ev.site, next.ID}] = true
		}
		s.log = append(s.log, fmt.Sprintf("%d@%d>%d;", ev.task.ID, ev.site, next.ID)...)
		start(next)
	}
}

// Hash identifies the schedule that was executed.
func (s *Sched) Hash() string {
	h := sha256.Sum256(s.log)
	return hex.EncodeToString(h[:8])
}
