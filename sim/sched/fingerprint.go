// Package sched holds the cooperative deterministic scheduler and the
// immutability monitor used for C18.
package sched

import (
	"fmt"
	"hash/fnv"
	"reflect"
	"sort"
	"strings"
	"unsafe"
)

// Excluded lists the (type-name substring, field name) pairs that are not
// part of the fingerprint: atomically maintained private caches inside
// dependency types an error may embed. They are written by the dependency's
// own read paths, are race-free by construction and are not the library's
// conduct. Nothing is excluded by pattern beyond this list.
var Excluded = [][2]string{
	{"", "sizeCache"},          // protobuf-go generated messages
	{"", "XXX_sizecache"},      // gogo/protobuf generated messages
	{"MessageState", "atomicMessageInfo"}, // protobuf-go protoimpl.MessageState
}

// Entry is one (path, digest) pair of a fingerprint.
type Entry struct {
	Path string
	Val  uint64
	// Sync: the entry lies inside a field whose type comes from package sync
	// or sync/atomic (the state of a Once, Mutex, atomic.Value ...).
	Sync bool
}

// Fingerprint is a flattened deep fingerprint of everything reachable from a value.
type Fingerprint []Entry

// Synchronised reports whether the difference between two fingerprints
// involves the state of a sync / sync/atomic value: the mutated struct then
// carries its own synchronisation (a Once- or mutex-guarded lazy field), which
// is race-free and deterministic and therefore within the property.
func (f Fingerprint) Synchronised(o Fingerprint) bool {
	for i := range f {
		if i < len(o) && f[i].Path == o[i].Path && f[i].Val != o[i].Val && (f[i].Sync || o[i].Sync) {
			return true
		}
	}
	return false
}

// Diff returns the first path at which two fingerprints differ ("" if equal).
func (f Fingerprint) Diff(o Fingerprint) string {
	for i := range f {
		if i >= len(o) {
			return f[i].Path + " (removed)"
		}
		if f[i].Path != o[i].Path {
			return f[i].Path + " / " + o[i].Path + " (structure)"
		}
		if f[i].Val != o[i].Val {
			return f[i].Path
		}
	}
	if len(o) > len(f) {
		return o[len(f)].Path + " (added)"
	}
	return ""
}

func hashString(s string) uint64 {
	h := fnv.New64a()
	h.Write([]byte(s))
	return h.Sum64()
}

func excluded(t reflect.Type, field string) bool {
	for _, e := range Excluded {
		if e[1] == field && (e[0] == "" || strings.Contains(t.String(), e[0])) {
			return true
		}
	}
	return false
}

// Take computes the fingerprint of v (through pointers, interfaces,
// unexported fields; cycle-safe).
func Take(v interface{}) Fingerprint {
	var out Fingerprint
	visited := map[uintptr]bool{}
	var walk func(rv reflect.Value, path string, depth int)
	inSync := 0
	leaf := func(path, s string) { out = append(out, Entry{path, hashString(s), inSync > 0}) }
	walk = func(rv reflect.Value, path string, depth int) {
		if len(out) > 200000 || depth > 80 {
			return
		}
		if !rv.IsValid() {
			leaf(path, "invalid")
			return
		}
		switch rv.Kind() {
		case reflect.Ptr:
			if rv.IsNil() {
				leaf(path, "nil")
				return
			}
			p := rv.Pointer()
			if visited[p] {
				leaf(path, "cycle")
				return
			}
			visited[p] = true
			walk(rv.Elem(), path+"*", depth+1)
		case reflect.Interface:
			if rv.IsNil() {
				leaf(path, "nil")
				return
			}
			e := rv.Elem()
			leaf(path+"#type", e.Type().String())
			walk(e, path, depth+1)
		case reflect.Struct:
			if !rv.CanAddr() {
				cp := reflect.New(rv.Type()).Elem()
				cp.Set(rv)
				rv = cp
			}
			t := rv.Type()
			for i := 0; i < rv.NumField(); i++ {
				ft := t.Field(i)
				if excluded(t, ft.Name) {
					continue
				}
				f := rv.Field(i)
				f = reflect.NewAt(f.Type(), unsafe.Pointer(f.UnsafeAddr())).Elem()
				syncField := false
				if pp := ft.Type.PkgPath(); pp == "sync" || pp == "sync/atomic" {
					syncField = true
				} else if ft.Type.Kind() == reflect.Ptr {
					if pp := ft.Type.Elem().PkgPath(); pp == "sync" || pp == "sync/atomic" {
						syncField = true
					}
				}
				if syncField {
					inSync++
				}
				walk(f, path+"."+ft.Name, depth+1)
				if syncField {
					inSync--
				}
			}
		case reflect.Slice:
			if rv.IsNil() {
				leaf(path, "nil")
				return
			}
			leaf(path+"#len", fmt.Sprint(rv.Len()))
			if rv.Type().Elem().Kind() == reflect.Uint8 {
				leaf(path, string(rv.Bytes()))
				return
			}
			// the spare capacity belongs to the value too: an append by a
			// reader into it is a write to shared memory
			full := rv
			if rv.Cap() > rv.Len() && rv.Cap()-rv.Len() <= 64 {
				full = rv.Slice(0, rv.Cap())
			}
			for i := 0; i < full.Len(); i++ {
				walk(full.Index(i), fmt.Sprintf("%s[%d]", path, i), depth+1)
			}
		case reflect.Array:
			for i := 0; i < rv.Len(); i++ {
				walk(rv.Index(i), fmt.Sprintf("%s[%d]", path, i), depth+1)
			}
		case reflect.Map:
			if rv.IsNil() {
				leaf(path, "nil")
				return
			}
			keys := rv.MapKeys()
			ks := make([]string, len(keys))
			idx := map[string]reflect.Value{}
			for i, k := range keys {
				ks[i] = fmt.Sprintf("%v", k)
				idx[ks[i]] = k
			}
			sort.Strings(ks)
			leaf(path+"#len", fmt.Sprint(len(ks)))
			for _, k := range ks {
				walk(rv.MapIndex(idx[k]), path+"["+k+"]", depth+1)
			}
		case reflect.String:
			leaf(path, rv.String())
		case reflect.Bool:
			leaf(path, fmt.Sprint(rv.Bool()))
		case reflect.Int, reflect.Int8, reflect.Int16, reflect.Int32, reflect.Int64:
			leaf(path, fmt.Sprint(rv.Int()))
		case reflect.Uint, reflect.Uint8, reflect.Uint16, reflect.Uint32, reflect.Uint64, reflect.Uintptr:
			leaf(path, fmt.Sprint(rv.Uint()))
		case reflect.Float32, reflect.Float64:
			leaf(path, fmt.Sprint(rv.Float()))
		case reflect.Complex64, reflect.Complex128:
			leaf(path, fmt.Sprint(rv.Complex()))
		case reflect.Func, reflect.Chan, reflect.UnsafePointer:
			leaf(path, fmt.Sprint(rv.Pointer()))
		default:
			leaf(path, "?")
		}
	}
	rv := reflect.ValueOf(&v).Elem() // addressable interface
	walk(rv, "e", 0)
	return out
}
