// Package obs computes observation fingerprints of error values using the
// library's public API only. Every call is wrapped so that a panic becomes
// the distinguished value "PANIC(...)", which compares unequal to any normal
// value.
package obs

import (
	"context"
	"encoding/json"
	"fmt"
	"runtime"
	"sort"
	"strings"
	"time"

	"github.com/cockroachdb/errors"
	"github.com/cockroachdb/errors/errbase"
	"github.com/cockroachdb/errors/extgrpc"
	"github.com/cockroachdb/errors/exthttp"
	"github.com/cockroachdb/errors/oserror"
	"github.com/cockroachdb/redact"
)

// PanicPrefix marks a captured panic.
const PanicPrefix = "PANIC("

// IsPanic reports whether an observed value is a captured panic.
func IsPanic(s string) bool { return strings.HasPrefix(s, PanicPrefix) }

// S runs f and returns its result, or PANIC(...) if it panics.
func S(f func() string) (res string) {
	defer func() {
		if r := recover(); r != nil {
			res = fmt.Sprintf("%s%v)@%s", PanicPrefix, r, panicSite())
		}
	}()
	return f()
}

// panicSite names the innermost function of the library on the panicking
// stack (called from a deferred function while panicking).
func panicSite() string {
	pcs := make([]uintptr, 64)
	n := runtime.Callers(3, pcs)
	frames := runtime.CallersFrames(pcs[:n])
	for {
		fr, more := frames.Next()
		if strings.HasPrefix(fr.Function, "github.com/cockroachdb/errors") {
			fn := fr.Function[len("github.com/cockroachdb/errors"):]
			return strings.TrimPrefix(fn, "/")
		}
		if !more {
			break
		}
	}
	return "outside-library"
}

// PanicSite extracts the library function named in a captured panic.
func PanicSite(s string) string {
	if i := strings.LastIndex(s, ")@"); i >= 0 && IsPanic(s) {
		return s[i+2:]
	}
	return ""
}

// Node is the observation of one visible layer.
type Node struct {
	Path     string // "", "0", "0.2" ... position in the visible tree
	Text     string // Error()
	GoType   string // %T at this process
	TypeName string // original type name
	Mark     string // family::extension
	Safe     []string
	Multi    int    // number of multi-cause branches (0 if none)
	HasCause bool   // has a single cause
	Stack    string // rendered reportable stack ("" if none)
	Err      error  `json:"-"`
}

// Tree walks the visible tree (pre-order; single cause first, then
// multi-cause branches) and observes each layer. maxNodes bounds the walk.
func Tree(err error, withStacks bool) []Node {
	var out []Node
	var walk func(e error, path string)
	walk = func(e error, path string) {
		if len(out) > 512 {
			return
		}
		n := Node{Path: path, Err: e}
		n.Text = S(func() string { return e.Error() })
		n.GoType = fmt.Sprintf("%T", e)
		S(func() string {
			sd := errors.GetSafeDetails(e)
			n.TypeName = sd.OriginalTypeName
			n.Mark = sd.ErrorTypeMark.FamilyName + "::" + sd.ErrorTypeMark.Extension
			n.Safe = sd.SafeDetails
			return ""
		})
		if withStacks {
			n.Stack = S(func() string { return StackString(e) })
		}
		var cause error
		var multi []error
		if p := S(func() string { cause = errors.UnwrapOnce(e); multi = errbase.UnwrapMulti(e); return "" }); p != "" {
			n.Text += " " + p
		}
		n.HasCause = cause != nil
		n.Multi = len(multi)
		out = append(out, n)
		if cause != nil {
			walk(cause, path+"c")
		}
		for i, m := range multi {
			walk(m, fmt.Sprintf("%s%d", path, i))
		}
	}
	walk(err, "")
	return out
}

// StackString renders the reportable stack trace of one layer.
func StackString(e error) string {
	st := errors.GetReportableStackTrace(e)
	if st == nil {
		return ""
	}
	var b strings.Builder
	for _, f := range st.Frames {
		fmt.Fprintf(&b, "%s|%s|%s|%s|%d|%v\n", f.Module, f.Function, f.Filename, f.AbsPath, f.Lineno, f.InApp)
	}
	if b.Len() == 0 {
		return "(empty)"
	}
	return b.String()
}

// Shape is the visible-tree shape: paths with cause/multi counts.
func Shape(nodes []Node) string {
	var b strings.Builder
	for _, n := range nodes {
		fmt.Fprintf(&b, "%s:%v/%d;", n.Path, n.HasCause, n.Multi)
	}
	return b.String()
}

// Encode returns the wire bytes of err (real protobuf marshalling).
func Encode(err error) (data []byte, panicked string) {
	panicked = S(func() string {
		enc := errors.EncodeError(context.Background(), err)
		var merr error
		data, merr = enc.Marshal()
		if merr != nil {
			return "MARSHAL-ERROR(" + merr.Error() + ")"
		}
		return ""
	})
	return
}

// Decode unmarshals wire bytes and decodes them.
func Decode(data []byte) (err error, panicked string) {
	panicked = S(func() string {
		var enc errors.EncodedError
		if uerr := enc.Unmarshal(data); uerr != nil {
			return "UNMARSHAL-ERROR(" + uerr.Error() + ")"
		}
		err = errors.DecodeError(context.Background(), enc)
		return ""
	})
	return
}

// KV is an ordered list of named observations.
type KV struct {
	K, V string
}

// Accessors observes every public accessor.
func Accessors(err error) []KV {
	var out []KV
	add := func(k string, f func() string) { out = append(out, KV{k, S(f)}) }
	add("GetAllHints", func() string { return q(errors.GetAllHints(err)) })
	add("FlattenHints", func() string { return errors.FlattenHints(err) })
	add("GetAllDetails", func() string { return q(errors.GetAllDetails(err)) })
	add("FlattenDetails", func() string { return errors.FlattenDetails(err) })
	add("GetAllIssueLinks", func() string { return fmt.Sprintf("%q", errors.GetAllIssueLinks(err)) })
	add("GetTelemetryKeys", func() string {
		k := append([]string(nil), errors.GetTelemetryKeys(err)...)
		sort.Strings(k)
		return q(k)
	})
	add("GetDomain", func() string { return string(errors.GetDomain(err)) })
	add("NotInDomain", func() string {
		// against the error's own domain, the no-domain marker and an unrelated one
		own := errors.GetDomain(err)
		return fmt.Sprint(errors.NotInDomain(err, own), errors.NotInDomain(err, errors.NoDomain), errors.NotInDomain(err, errors.NamedDomain("unrelated")),
			errors.NotInDomain(err, errors.NamedDomain("unrelated"), own))
	})
	add("EnsureNotInDomain", func() string {
		own := errors.GetDomain(err)
		called := false
		out := errors.EnsureNotInDomain(err, func(d errors.Domain, e error) error { called = true; return e }, own)
		out2 := errors.EnsureNotInDomain(err, func(d errors.Domain, e error) error { return nil }, errors.NamedDomain("unrelated"))
		return fmt.Sprint(called, out != nil, out2 != nil)
	})
	add("HasInterface", func() string {
		return fmt.Sprint(errors.HasInterface(err, (*interface{ ErrorHint() string })(nil)),
			errors.HasInterface(err, (*interface{ ErrorDetail() string })(nil)))
	})
	add("GetContextTags", func() string {
		var b strings.Builder
		for _, buf := range errors.GetContextTags(err) {
			b.WriteString("[")
			for _, t := range buf.Get() {
				fmt.Fprintf(&b, "%q=%q,", t.Key(), t.ValueStr())
			}
			b.WriteString("]")
		}
		return b.String()
	})
	add("HasAssertionFailure", func() string { return fmt.Sprint(errors.HasAssertionFailure(err)) })
	add("IsAssertionFailure", func() string { return fmt.Sprint(errors.IsAssertionFailure(err)) })
	add("HasUnimplementedError", func() string { return fmt.Sprint(errors.HasUnimplementedError(err)) })
	add("IsUnimplementedError", func() string { return fmt.Sprint(errors.IsUnimplementedError(err)) })
	add("HasIssueLink", func() string { return fmt.Sprint(errors.HasIssueLink(err)) })
	add("IsIssueLink", func() string { return fmt.Sprint(errors.IsIssueLink(err)) })
	add("GetHTTPCode", func() string { return fmt.Sprint(exthttp.GetHTTPCode(err, -1)) })
	add("GetGrpcCode", func() string { return fmt.Sprint(extgrpc.GetGrpcCode(err)) })
	add("IsPermission", func() string { return fmt.Sprint(oserror.IsPermission(err)) })
	add("IsExist", func() string { return fmt.Sprint(oserror.IsExist(err)) })
	add("IsNotExist", func() string { return fmt.Sprint(oserror.IsNotExist(err)) })
	add("IsTimeout", func() string { return fmt.Sprint(oserror.IsTimeout(err)) })
	add("GetOneLineSource", func() string {
		f, l, fn, ok := errors.GetOneLineSource(err)
		return fmt.Sprintf("%s:%d:%s:%v", f, l, fn, ok)
	})
	return out
}

func q(s []string) string { return fmt.Sprintf("%q", s) }

// AllSafeDetails flattens GetAllSafeDetails.
func AllSafeDetails(err error) (out []string, panicked string) {
	panicked = S(func() string {
		for _, p := range errors.GetAllSafeDetails(err) {
			out = append(out, "type:"+p.OriginalTypeName, "mark:"+p.ErrorTypeMark.FamilyName+"::"+p.ErrorTypeMark.Extension)
			out = append(out, p.SafeDetails...)
		}
		return ""
	})
	return
}

// Fmt renders err with a verb via fmt (through Formattable, so that
// non-library outer types are rendered by the library too).
func Fmt(verb string, err error) string {
	return S(func() string { return fmt.Sprintf(verb, errors.Formattable(err)) })
}

// FmtDirect renders err with a verb via fmt directly.
func FmtDirect(verb string, err error) string {
	return S(func() string { return fmt.Sprintf(verb, err) })
}

// Red renders err with a verb via redact and returns the redactable string.
func Red(verb string, err error) string {
	return S(func() string { return string(redact.Sprintf(verb, err)) })
}

// Redacted returns the Redact()ed form of a redactable string.
func Redacted(s string) string {
	if IsPanic(s) {
		return s
	}
	return S(func() string { return string(redact.RedactableString(s).Redact()) })
}

// IsRow evaluates Is(err, r) for each reference.
func IsRow(err error, refs []error) string {
	b := make([]byte, len(refs))
	for i, r := range refs {
		b[i] = IsOne(err, r)
	}
	return string(b)
}

// IsOne evaluates Is(err, r): 'T', 'F' or 'P' (panic).
func IsOne(err, r error) (res byte) {
	defer func() {
		if x := recover(); x != nil {
			res = 'P'
		}
	}()
	if errors.Is(err, r) {
		return 'T'
	}
	return 'F'
}

// Report builds the Sentry report and renders it to JSON.
func Report(err error) (eventJSON string, extras map[string]string, panicked string) {
	extras = map[string]string{}
	panicked = S(func() string {
		ev, ex := errors.BuildSentryReport(err)
		if ev == nil {
			eventJSON = "null"
			return ""
		}
		ev.Timestamp = time.Time{}
		ev.EventID = ""
		data, jerr := json.Marshal(ev)
		if jerr != nil {
			return "JSON-ERROR(" + jerr.Error() + ")"
		}
		eventJSON = string(data)
		for k, v := range ex {
			extras[k] = fmt.Sprint(v)
		}
		return ""
	})
	return
}

// Exercise runs the read-only observers of the library over err and
// discards the results: a program logs, reports and inspects an error before
// it sends it on, and none of that may change the value.
func Exercise(err error) {
	if err == nil {
		return
	}
	_ = Fmt("%+v", err)
	_ = Red("%+v", err)
	_, _, _ = Report(err)
	_, _ = AllSafeDetails(err)
	_ = Accessors(err)
	_, _ = Encode(err)
}
