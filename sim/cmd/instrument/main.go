// Command instrument generates a `go build -overlay` file that inserts
// scheduler yield points into every non-test, non-generated Go file of the
// repository under test, and adds the virtual leaf package
// github.com/cockroachdb/errors/verifyield. The repository itself is not
// modified; the instrumentation always tracks the current working tree.
//
//	instrument -repo /repo -out /tmp/dir   → writes /tmp/dir/overlay.json
//
// Insertion is textual at the byte offset of each statement, on the same
// line, so file:line information in captured stacks is unchanged.
package main

import (
	"encoding/json"
	"flag"
	"fmt"
	"go/ast"
	"go/parser"
	"go/token"
	"os"
	"path/filepath"
	"sort"
	"strings"
)

const yieldPkg = `// Package verifyield is a virtual package that only exists in the
// verification overlay.
package verifyield

// Hook is called at every yield point when non-nil.
var Hook func(site int)

// Yield marks a point at which the deterministic scheduler may preempt.
func Yield(site int) {
	if h := Hook; h != nil {
		h(site)
	}
}
`

type site struct {
	ID   int    `json:"id"`
	File string `json:"file"`
	Line int    `json:"line"`
	Func string `json:"func"`
}

func main() {
	repo := flag.String("repo", "/repo", "")
	out := flag.String("out", "", "")
	flag.Parse()
	if *out == "" {
		fmt.Fprintln(os.Stderr, "usage: instrument -repo DIR -out DIR")
		os.Exit(2)
	}
	if err := os.MkdirAll(*out, 0o755); err != nil {
		fatal(err)
	}
	overlay := map[string]string{}
	var sites []site
	nextID := 1
	var files []string
	filepath.Walk(*repo, func(path string, info os.FileInfo, err error) error {
		if err != nil {
			return nil
		}
		if info.IsDir() {
			name := info.Name()
			if name == ".git" || name == "testdata" || name == "fmttests" || name == "testutils" || (name == "grpc" && filepath.Dir(path) == *repo && false) {
				return filepath.SkipDir
			}
			return nil
		}
		if !strings.HasSuffix(path, ".go") || strings.HasSuffix(path, "_test.go") || strings.HasSuffix(path, ".pb.go") {
			return nil
		}
		files = append(files, path)
		return nil
	})
	sort.Strings(files)
	for _, path := range files {
		src, err := os.ReadFile(path)
		if err != nil {
			fatal(err)
		}
		fset := token.NewFileSet()
		f, err := parser.ParseFile(fset, path, src, parser.ParseComments)
		if err != nil {
			fatal(err)
		}
		if f.Name.Name == "main" {
			continue
		}
		type ins struct {
			off  int
			text string
		}
		var inserts []ins
		curFunc := ""
		addStmt := func(s ast.Stmt) {
			pos := fset.Position(s.Pos())
			inserts = append(inserts, ins{pos.Offset, fmt.Sprintf("verifyield.Yield(%d); ", nextID)})
			sites = append(sites, site{nextID, strings.TrimPrefix(path, *repo+"/"), pos.Line, curFunc})
			nextID++
		}
		var walkBlock func(list []ast.Stmt)
		var walkStmt func(s ast.Stmt)
		walkExprFuncs := func(n ast.Node) {
			// function literals nested in expressions
			ast.Inspect(n, func(x ast.Node) bool {
				if fl, ok := x.(*ast.FuncLit); ok {
					walkBlock(fl.Body.List)
					return false
				}
				return true
			})
		}
		walkStmt = func(s ast.Stmt) {
			switch st := s.(type) {
			case *ast.BlockStmt:
				walkBlock(st.List)
			case *ast.IfStmt:
				if st.Init != nil {
					walkExprFuncs(st.Init)
				}
				walkExprFuncs(st.Cond)
				walkBlock(st.Body.List)
				if st.Else != nil {
					walkStmt(st.Else)
				}
			case *ast.ForStmt:
				walkBlock(st.Body.List)
			case *ast.RangeStmt:
				walkExprFuncs(st.X)
				walkBlock(st.Body.List)
			case *ast.SwitchStmt:
				for _, c := range st.Body.List {
					walkBlock(c.(*ast.CaseClause).Body)
				}
			case *ast.TypeSwitchStmt:
				for _, c := range st.Body.List {
					walkBlock(c.(*ast.CaseClause).Body)
				}
			case *ast.SelectStmt:
				for _, c := range st.Body.List {
					walkBlock(c.(*ast.CommClause).Body)
				}
			case *ast.LabeledStmt:
				// the labelled statement itself must stay directly after
				// its label; only its inner blocks are instrumented
				switch inner := st.Stmt.(type) {
				case *ast.ForStmt, *ast.RangeStmt, *ast.SwitchStmt, *ast.TypeSwitchStmt, *ast.SelectStmt, *ast.BlockStmt:
					walkStmt(inner)
				}
			default:
				walkExprFuncs(s)
			}
		}
		walkBlock = func(list []ast.Stmt) {
			for _, s := range list {
				if _, isDecl := s.(*ast.DeclStmt); !isDecl {
					if _, isEmpty := s.(*ast.EmptyStmt); !isEmpty {
						addStmt(s)
					}
				}
				walkStmt(s)
			}
		}
		for _, d := range f.Decls {
			switch dd := d.(type) {
			case *ast.FuncDecl:
				if dd.Body == nil {
					continue
				}
				curFunc = dd.Name.Name
				if dd.Recv != nil && len(dd.Recv.List) > 0 {
					curFunc = exprString(dd.Recv.List[0].Type) + "." + curFunc
				}
				if curFunc == "init" {
					continue // runs before any scheduler exists
				}
				// function entry
				pos := fset.Position(dd.Body.Lbrace)
				inserts = append(inserts, ins{pos.Offset + 1, fmt.Sprintf(" verifyield.Yield(%d); ", nextID)})
				sites = append(sites, site{nextID, strings.TrimPrefix(path, *repo+"/"), pos.Line, curFunc + "(entry)"})
				nextID++
				walkBlock(dd.Body.List)
			case *ast.GenDecl:
				curFunc = "(package-level)"
				// function literals in package-level var initialisers
				ast.Inspect(dd, func(x ast.Node) bool {
					if fl, ok := x.(*ast.FuncLit); ok {
						walkBlock(fl.Body.List)
						return false
					}
					return true
				})
			}
		}
		if len(inserts) == 0 {
			continue
		}
		// import on the package line
		pkgEnd := fset.Position(f.Name.End()).Offset
		inserts = append(inserts, ins{pkgEnd, `; import verifyield "github.com/cockroachdb/errors/verifyield"`})
		sort.SliceStable(inserts, func(i, j int) bool { return inserts[i].off < inserts[j].off })
		var b strings.Builder
		last := 0
		for _, in := range inserts {
			b.Write(src[last:in.off])
			b.WriteString(in.text)
			last = in.off
		}
		b.Write(src[last:])
		rel := strings.TrimPrefix(path, *repo+"/")
		dst := filepath.Join(*out, "src", rel)
		os.MkdirAll(filepath.Dir(dst), 0o755)
		if err := os.WriteFile(dst, []byte(b.String()), 0o644); err != nil {
			fatal(err)
		}
		overlay[path] = dst
	}
	yp := filepath.Join(*out, "src", "verifyield", "yield.go")
	os.MkdirAll(filepath.Dir(yp), 0o755)
	if err := os.WriteFile(yp, []byte(yieldPkg), 0o644); err != nil {
		fatal(err)
	}
	overlay[filepath.Join(*repo, "verifyield", "yield.go")] = yp
	data, _ := json.MarshalIndent(map[string]interface{}{"Replace": overlay}, "", " ")
	if err := os.WriteFile(filepath.Join(*out, "overlay.json"), data, 0o644); err != nil {
		fatal(err)
	}
	sd, _ := json.Marshal(sites)
	os.WriteFile(filepath.Join(*out, "sites.json"), sd, 0o644)
	fmt.Printf("instrumented %d files, %d yield sites\n", len(overlay)-1, len(sites))
}

func exprString(e ast.Expr) string {
	switch x := e.(type) {
	case *ast.StarExpr:
		return "*" + exprString(x.X)
	case *ast.Ident:
		return x.Name
	case *ast.IndexExpr:
		return exprString(x.X)
	}
	return "?"
}

func fatal(err error) {
	fmt.Fprintln(os.Stderr, "instrument:", err)
	os.Exit(2)
}
