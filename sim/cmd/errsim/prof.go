package main

import (
	"os"
	"runtime/pprof"
)

func startProfile() func() {
	p := os.Getenv("ERRSIM_CPUPROFILE")
	if p == "" {
		return func() {}
	}
	f, err := os.Create(p)
	if err != nil {
		return func() {}
	}
	pprof.StartCPUProfile(f)
	return func() { pprof.StopCPUProfile(); f.Close() }
}
