// Command errsim is the deterministic simulator driver.
//
//	errsim run      -prop C01 -tier quick -seed 1 ...   fan out to worker processes, merge, write evidence
//	errsim worker   ...                                  (internal) execute a slice of run indices
//	errsim replay   <file>                               re-execute a recorded tape
//	errsim digest   -prop C01 -seed 1 -runs 40           print per-run event-log digests (determinism self-test)
//	errsim list-keys                                     print registered type keys
//
// Exit codes: 0 property held; 1 violation (a VIOLATION line is printed);
// 2 infrastructure trouble; 3 replay did not reproduce.
package main

import (
	"crypto/sha256"
	"encoding/hex"
	"encoding/json"
	"flag"
	"fmt"
	"hash/fnv"
	"os"
	"os/exec"
	"path/filepath"
	"regexp"
	"runtime"
	"runtime/debug"
	"sort"
	"strconv"
	"strings"
	"time"

	"errsim/gen"
	"errsim/props"
	"errsim/tape"
	"errsim/world"
)

func main() {
	if len(os.Args) < 2 {
		fmt.Fprintln(os.Stderr, "usage: errsim run|worker|replay|digest|list-keys ...")
		os.Exit(2)
	}
	world.InitBase()
	stop := startProfile()
	defer stop()
	switch os.Args[1] {
	case "run":
		os.Exit(cmdRun(os.Args[2:]))
	case "worker":
		os.Exit(cmdWorker(os.Args[2:]))
	case "replay":
		os.Exit(cmdReplay(os.Args[2:]))
	case "digest":
		rc := cmdDigest(os.Args[2:])
		stop()
		os.Exit(rc)
	case "list-keys":
		for _, k := range world.Keys() {
			fmt.Println(k)
		}
	default:
		fmt.Fprintln(os.Stderr, "unknown subcommand", os.Args[1])
		os.Exit(2)
	}
}

// ---- known findings --------------------------------------------------------

type finding struct {
	Status   string `json:"status"` // "known" or "fixed"
	Property string `json:"property"`
	Oracle   string `json:"oracle"`
	// Culprit and Config narrow the match when non-empty.
	Culprit string `json:"culprit,omitempty"`
	Config  string `json:"config,omitempty"`
	// Normalize: the violation matches only if expected and observed become
	// equal after applying these [from, to] replacements to both (i.e. the
	// listed difference is the *only* difference).
	Normalize [][2]string `json:"normalize,omitempty"`
	// NormalizeRegex: like Normalize with regular expressions.
	NormalizeRegex [][2]string `json:"normalize_regex,omitempty"`
	// TreeContains: the violation matches only if the rendered spec of the
	// run contains every one of these substrings.
	TreeContains []string `json:"tree_contains,omitempty"`
	// WhereContains: the violation's location must contain each substring.
	WhereContains []string `json:"where_contains,omitempty"`
	// OnlyCombined: the rules of this entry never explain a violation on
	// their own; they are applied only together with those of another
	// applicable entry (a recorded difference that shows up incidentally in
	// the texts reported with another recorded finding).
	OnlyCombined bool `json:"only_combined,omitempty"`
	// TreeContainsAny: at least one of these occurs in the tree description.
	TreeContainsAny []string `json:"tree_contains_any,omitempty"`
	// ObservedContains: the observed value must contain each substring.
	ObservedContains []string `json:"observed_contains,omitempty"`
	Commit           string   `json:"commit,omitempty"`
	What             string   `json:"what"`
}

func (k *finding) key() string {
	return k.Property + "|" + k.Oracle + "|" + k.Culprit + "|" + k.Config + "|" + k.What
}

func loadKnown(path string) ([]finding, error) {
	if path == "" {
		return nil, nil
	}
	data, err := os.ReadFile(path)
	if err != nil {
		if os.IsNotExist(err) {
			return nil, nil
		}
		return nil, err
	}
	var f []finding
	if err := json.Unmarshal(data, &f); err != nil {
		return nil, err
	}
	return f, nil
}

func (k *finding) applies(v props.Violation, tree string) bool {
	if k.Status != "known" || k.Property != v.Prop || k.Oracle != v.Oracle {
		return false
	}
	if k.Culprit != "" && k.Culprit != v.Culprit {
		return false
	}
	if k.Config != "" && k.Config != v.Config {
		return false
	}
	for _, c := range k.TreeContains {
		if !strings.Contains(tree, c) {
			return false
		}
	}
	if len(k.TreeContainsAny) > 0 {
		any := false
		for _, c := range k.TreeContainsAny {
			if strings.Contains(tree, c) {
				any = true
			}
		}
		if !any {
			return false
		}
	}
	for _, c := range k.ObservedContains {
		if !strings.Contains(v.Observed, c) {
			return false
		}
	}
	for _, c := range k.WhereContains {
		if !strings.Contains(v.Where, c) {
			return false
		}
	}
	return true
}

func (k *finding) normalize(e, o string) (string, string) {
	for _, r := range k.Normalize {
		e = strings.ReplaceAll(e, r[0], r[1])
		o = strings.ReplaceAll(o, r[0], r[1])
	}
	for _, r := range k.NormalizeRegex {
		re, err := regexp.Compile(r[0])
		if err != nil {
			continue
		}
		e = re.ReplaceAllString(e, r[1])
		o = re.ReplaceAllString(o, r[1])
	}
	return e, o
}

// matchKnown returns the listed finding that explains v, if any. A finding
// with normalisation rules explains v only if its rules make expected and
// observed equal, i.e. the recorded difference is the only difference. When
// no single finding does, the rules of all applicable findings are applied
// together: a value that differs from the expected one by nothing but a
// combination of recorded differences is explained by those findings.
func matchKnown(known []finding, v props.Violation, tree string) *finding {
	var first *finding
	e, o := v.Expected, v.Observed
	for i := range known {
		k := &known[i]
		if !k.applies(v, tree) {
			continue
		}
		if k.OnlyCombined {
			e, o = k.normalize(e, o)
			continue
		}
		if len(k.Normalize) == 0 && len(k.NormalizeRegex) == 0 {
			return k
		}
		if e1, o1 := k.normalize(v.Expected, v.Observed); e1 == o1 {
			return k
		}
		if first == nil {
			first = k
		}
		e, o = k.normalize(e, o)
	}
	if first != nil && e == o {
		return first
	}
	return nil
}

// ---- replay files ----------------------------------------------------------

type replayFile struct {
	Property  string          `json:"property"`
	Tier      string          `json:"tier"`
	VerifSeed uint64          `json:"verif_seed"`
	Run       int             `json:"run"`
	Signature string          `json:"signature"`
	Violation props.Violation `json:"violation"`
	Tape      []uint32        `json:"tape"`
	TapeLen0  int             `json:"tape_len_before_shrink"`
	ShrinkUse int             `json:"shrink_evaluations"`
	Desc      props.Desc      `json:"description"`
	LogSHA    string          `json:"event_log_sha256"`
	// FromSeed: the tape was not recorded (the process died, e.g. killed by
	// the race detector); the run is regenerated from (verif_seed, run).
	FromSeed bool   `json:"from_seed,omitempty"`
	RaceLog  string `json:"race_log,omitempty"`
}

// ---- worker ----------------------------------------------------------------

type workerOut struct {
	Evaluations int               `json:"evaluations"`
	Discarded   int               `json:"discarded"`
	Nontrivial  int               `json:"nontrivial"`
	Keys        []uint64          `json:"keys"` // hashes of distinct non-trivial run keys
	Kinds       map[string]int    `json:"kinds"`
	Counters    map[string]int    `json:"counters"`
	Faults      map[string]int    `json:"faults"`
	Deliveries  int               `json:"deliveries"`
	Forwards    int               `json:"forwards"`
	Duplicates  int               `json:"duplicates"`
	Reorders    int               `json:"reorders"`
	Fanouts     int               `json:"fanouts"`
	Steps       int               `json:"steps"`
	Warnings    int               `json:"warnings"`
	Samples     []props.Desc      `json:"samples"`
	Violations  []replayFile      `json:"violations"`
	KnownHits   map[string]int    `json:"known_hits"` // finding index -> hits
	RawViol     int               `json:"raw_violations"`
	Trouble     string            `json:"trouble,omitempty"`
	WireHashes  int               `json:"wire_hashes"`
	Extra       map[string]string `json:"extra,omitempty"`
}

func hashKey(s string) uint64 {
	h := fnv.New64a()
	h.Write([]byte(s))
	return h.Sum64()
}

// runOne executes one run, converting a harness panic into trouble.
//
// Every run executes on a fresh goroutine so that the call stacks captured
// by the library's constructors are the same whether the run happens during
// search, shrinking or replay (stack traces are part of the wire bytes and
// hence of the event-log digest).
func runOne(p props.Property, t *tape.Tape, tier props.Tier) (res *props.Result, trouble string) {
	done := make(chan struct{})
	go func() {
		defer close(done)
		defer func() {
			if r := recover(); r != nil {
				trouble = fmt.Sprintf("harness panic: %v\n%s", r, debug.Stack())
			}
		}()
		res = p.Run(t, tier)
	}()
	<-done
	return res, trouble
}

func parseTier(s string) props.Tier {
	if s == "thorough" {
		return props.Thorough
	}
	return props.Quick
}

func cmdWorker(args []string) int {
	fs := flag.NewFlagSet("worker", flag.ExitOnError)
	prop := fs.String("prop", "", "")
	tierS := fs.String("tier", "quick", "")
	seed := fs.Uint64("seed", 1, "")
	offset := fs.Int("offset", 0, "")
	step := fs.Int("step", 1, "")
	runs := fs.Int("runs", 100, "")
	deadline := fs.Int64("deadline", 0, "unix seconds; 0 = none")
	knownPath := fs.String("known", "", "")
	out := fs.String("out", "", "")
	shrinkBudget := fs.Int("shrink", 400, "")
	maxSigs := fs.Int("maxsigs", 40, "distinct new signatures shrunk per worker")
	fs.Parse(args)
	runtime.GOMAXPROCS(2)
	p := props.Get(*prop)
	if p == nil {
		fmt.Fprintln(os.Stderr, "unknown property", *prop)
		return 2
	}
	known, err := loadKnown(*knownPath)
	if err != nil {
		fmt.Fprintln(os.Stderr, "known findings:", err)
		return 2
	}
	tier := parseTier(*tierS)
	w := workerOut{Kinds: map[string]int{}, Counters: map[string]int{}, Faults: map[string]int{}, KnownHits: map[string]int{}}
	keys := map[uint64]bool{}
	seenSig := map[string]bool{}
	enumN := 0
	en, _ := p.(props.Enumerator)
	if en != nil {
		enumN = en.EnumSize(tier)
	}
	for i := *offset; i < *runs; i += *step {
		if *deadline > 0 && i >= enumN && time.Now().Unix() >= *deadline {
			break
		}
		var t *tape.Tape
		if i < enumN {
			t = tape.NewReplay(en.TapeFor(i, tier))
		} else {
			t = tape.NewRecording(tape.Mix(*seed, *prop, i))
		}
		if *out != "" && raceEnabled {
			os.WriteFile(*out+".cur", []byte(fmt.Sprint(i)), 0o644)
		}
		res, trouble := runOne(p, t, tier)
		if trouble != "" {
			w.Trouble = fmt.Sprintf("run %d (seed %d): %s", i, *seed, trouble)
			break
		}
		if res.Trouble != "" {
			w.Trouble = fmt.Sprintf("run %d (seed %d): harness self-disagreement: %s\n  tree: %s", i, *seed, res.Trouble, res.Desc.Tree)
			break
		}
		if res.Discarded {
			w.Discarded++
			continue
		}
		w.Evaluations++
		if res.Nontrivial {
			w.Nontrivial++
			keys[hashKey(res.Key)] = true
		}
		for _, k := range res.Kinds {
			w.Kinds[k.String()]++
		}
		for k, v := range res.Counters {
			w.Counters[k] += v
		}
		for k, v := range res.Stats.Faults {
			w.Faults[k] += v
		}
		w.Deliveries += res.Stats.Deliveries
		w.Forwards += res.Stats.Forwards
		w.Duplicates += res.Stats.Duplicates
		w.Reorders += res.Stats.Reorders
		w.Fanouts += res.Stats.Fanouts
		w.Steps += res.Stats.Steps
		w.Warnings += res.Stats.Warnings
		if len(w.Samples) < 2 && res.Nontrivial && (i/(*step))%7 == 3 {
			w.Samples = append(w.Samples, res.Desc)
		}
		for _, v := range res.Violations {
			w.RawViol++
			if k := matchKnown(known, v, res.Desc.Tree); k != nil {
				w.KnownHits[k.key()]++
				continue
			}
			sig := v.Sig()
			if seenSig[sig] || len(w.Violations) >= *maxSigs {
				continue
			}
			seenSig[sig] = true
			// minimising is bounded by a wall-clock budget per worker (90 s):
			// afterwards violations are reported with their full tape, which
			// replays just as well
			if shrinkUntil.IsZero() {
				shrinkUntil = time.Now().Add(90 * time.Second)
			}
			w.Violations = append(w.Violations, shrinkViolation(p, tier, *prop, *tierS, *seed, i, t.Values(), v, *shrinkBudget, known))
		}
	}
	for k := range keys {
		w.Keys = append(w.Keys, k)
	}
	data, _ := json.Marshal(&w)
	if *out != "" {
		if err := os.WriteFile(*out, data, 0o644); err != nil {
			fmt.Fprintln(os.Stderr, err)
			return 2
		}
	} else {
		os.Stdout.Write(data)
	}
	if w.Trouble != "" {
		return 2
	}
	return 0
}

// hasSig finds a violation with the given signature that is not a listed
// known finding (so that shrinking cannot drift from a new violation into a
// recorded one that happens to share the signature).
func hasSig(res *props.Result, sig string, known []finding) *props.Violation {
	if res == nil {
		return nil
	}
	for i := range res.Violations {
		if res.Violations[i].Sig() == sig && matchKnown(known, res.Violations[i], res.Desc.Tree) == nil {
			return &res.Violations[i]
		}
	}
	return nil
}

// shrinkUntil is the wall-clock end of this worker's minimisation budget
// (set when the first violation is found).
var shrinkUntil time.Time

func shrinkViolation(p props.Property, tier props.Tier, prop, tierS string, seed uint64, run int, vals []uint32, v props.Violation, budget int, known []finding) replayFile {
	sig := v.Sig()
	min, used := tape.Shrink(vals, budget, func(c []uint32) bool {
		if !shrinkUntil.IsZero() && time.Now().After(shrinkUntil) {
			return false
		}
		res, trouble := runOne(p, tape.NewReplay(c), tier)
		return trouble == "" && hasSig(res, sig, known) != nil
	})
	// final deterministic re-run of the minimised tape for the description
	res, _ := runOne(p, tape.NewReplay(min), tier)
	rf := replayFile{Property: prop, Tier: tierS, VerifSeed: seed, Run: run, Signature: sig, Tape: min,
		TapeLen0: len(vals), ShrinkUse: used, Violation: v}
	if vv := hasSig(res, sig, known); vv != nil {
		rf.Violation = *vv
		rf.Desc = res.Desc
		rf.LogSHA = res.LogDigest
	} else {
		// shrinking must never lose the violation; fall back to the original tape
		rf.Tape = vals
		res, _ = runOne(p, tape.NewReplay(vals), tier)
		if res != nil {
			rf.Desc = res.Desc
			rf.LogSHA = res.LogDigest
		}
	}
	return rf
}

// raceSite extracts a stable locator from a race report: the first library
// function mentioned.
func raceSite(log string) string {
	for _, line := range strings.Split(log, "\n") {
		line = strings.TrimSpace(line)
		if strings.HasPrefix(line, "github.com/cockroachdb/errors") {
			line = strings.TrimSuffix(line, "()")
			return strings.TrimPrefix(strings.TrimPrefix(line, "github.com/cockroachdb/errors"), "/")
		}
	}
	return "unknown-site"
}

// ---- replay ----------------------------------------------------------------

func cmdReplay(args []string) int {
	if len(args) < 1 {
		fmt.Fprintln(os.Stderr, "usage: errsim replay <file>")
		return 2
	}
	data, err := os.ReadFile(args[0])
	if err != nil {
		fmt.Fprintln(os.Stderr, err)
		return 2
	}
	var rf replayFile
	if err := json.Unmarshal(data, &rf); err != nil {
		fmt.Fprintln(os.Stderr, err)
		return 2
	}
	p := props.Get(rf.Property)
	if p == nil {
		fmt.Fprintln(os.Stderr, "unknown property", rf.Property)
		return 2
	}
	var rt *tape.Tape
	if rf.FromSeed {
		rt = tape.NewRecording(tape.Mix(rf.VerifSeed, rf.Property, rf.Run))
	} else {
		rt = tape.NewReplay(rf.Tape)
	}
	res, trouble := runOne(p, rt, parseTier(rf.Tier))
	if trouble != "" {
		fmt.Fprintln(os.Stderr, trouble)
		return 2
	}
	if rf.FromSeed {
		// a race replay: the race detector terminates the process with exit
		// code 66 when it reproduces; reaching this point means it did not
		fmt.Printf("tree: %s\nno race detected in this execution (run under the -race build)\n", res.Desc.Tree)
	}
	fmt.Printf("tree: %s\ncluster: %v\nroutes: %v\nfaults: %v\nnotes: %v\n", res.Desc.Tree, res.Desc.Cluster, res.Desc.Routes, res.Desc.Faults, res.Desc.Notes)
	for _, v := range res.Violations {
		fmt.Printf("  violation %s\n    where:    %s\n    expected: %s\n    observed: %s\n", v.Sig(), v.Where, v.Expected, v.Observed)
	}
	if v := hasSig(res, rf.Signature, nil); v != nil {
		same := res.LogDigest == rf.LogSHA
		fmt.Printf("event_log_sha256 identical: %v\n", same)
		fmt.Printf("VIOLATION property=%s replay=%s\n", rf.Property, args[0])
		return 1
	}
	fmt.Println("NOT-REPRODUCED")
	return 3
}

// ---- digest (determinism self-test helper) ---------------------------------

func cmdDigest(args []string) int {
	fs := flag.NewFlagSet("digest", flag.ExitOnError)
	prop := fs.String("prop", "", "")
	tierS := fs.String("tier", "quick", "")
	seed := fs.Uint64("seed", 1, "")
	runs := fs.Int("runs", 40, "")
	fs.Parse(args)
	p := props.Get(*prop)
	if p == nil {
		return 2
	}
	h := sha256.New()
	for i := 0; i < *runs; i++ {
		t := tape.NewRecording(tape.Mix(*seed, *prop, i))
		res, trouble := runOne(p, t, parseTier(*tierS))
		if trouble != "" {
			fmt.Fprintln(os.Stderr, trouble)
			return 2
		}
		var sigs []string
		for _, v := range res.Violations {
			sigs = append(sigs, v.Sig()+"|"+v.Expected+"|"+v.Observed)
		}
		line := fmt.Sprintf("%d %s %d %v %s\n", i, res.LogDigest, t.Pos(), sigs, res.Key)
		h.Write([]byte(line))
		fmt.Print(line)
	}
	fmt.Println("TOTAL", hex.EncodeToString(h.Sum(nil)))
	return 0
}

func componentsFor(prop string) map[string]string {
	switch prop {
	case "C18":
		return map[string]string{
			"real": "cockroachdb/errors built from /repo's working tree with yield points compiled into every statement (overlay; file:line unchanged), real goroutines, fmt, redact, gogo/protobuf, sentry-go event construction; layer 3: the same code under the Go race detector",
			"stub": "goroutine scheduling in layers 1-2 (exactly one observer runs at a time; every switch is drawn from the tape at a yield point); layer 3's interleaving is the Go runtime's, not the simulator's",
		}
	case "C20":
		return map[string]string{
			"real": "cockroachdb/errors incl. grpc/middleware interceptors, google.golang.org/grpc client and server, HTTP/2 framing, gogo/status, protobuf",
			"stub": "the network: in-memory listener/conn whose writes are fragmented as a function of (seed, direction, stream offset); goroutine interleaving inside gRPC is the Go runtime's",
		}
	}
	return map[string]string{
		"real": "cockroachdb/errors (all packages, built from /repo working tree with -tags verif), gogo/protobuf marshal/unmarshal, cockroachdb/redact, logtags, sentry-go event construction (and ReportError through the SDK's Transport seam for C03), pkg/errors, grpc status types",
		"stub": "process boundary (registry set swapped by hook H1), network (in-memory priority queue carrying real protobuf bytes), logical clock, warning log (counter)",
	}
}

// ---- run (parent) ----------------------------------------------------------

type evidence struct {
	PropertyID  string                 `json:"property_id"`
	Tier        string                 `json:"tier"`
	Seed        int64                  `json:"seed"`
	Level       string                 `json:"level"`
	Coverage    map[string]interface{} `json:"coverage"`
	Assumptions []string               `json:"assumptions"`
	WallS       float64                `json:"wall_s"`
	Violations  int                    `json:"violations"`
}

func cmdRun(args []string) int {
	fs := flag.NewFlagSet("run", flag.ExitOnError)
	prop := fs.String("prop", "", "")
	tierS := fs.String("tier", "quick", "")
	seed := fs.Uint64("seed", 1, "")
	runs := fs.Int("runs", 2000, "")
	workers := fs.Int("workers", 16, "")
	budget := fs.Duration("budget", 0, "wall-clock budget for the search (0 = run count only)")
	evPath := fs.String("evidence", "", "")
	replays := fs.String("replays", "", "")
	knownPath := fs.String("known", "", "")
	level := fs.String("level", "exploration", "")
	shrinkBudget := fs.Int("shrink", 400, "")
	maxSigs := fs.Int("maxsigs", 40, "distinct new signatures shrunk per worker")
	asProp := fs.String("as", "", "property id to report under (default: -prop)")
	extra := fs.String("extra", "", "evidence file of a companion layer to embed")
	fs.Parse(args)
	outProp := *prop
	if *asProp != "" {
		outProp = *asProp
	}
	start := time.Now()
	p := props.Get(*prop)
	if p == nil {
		fmt.Fprintln(os.Stderr, "unknown property", *prop)
		return 2
	}
	known, err := loadKnown(*knownPath)
	if err != nil {
		fmt.Fprintln(os.Stderr, "known findings:", err)
		return 2
	}
	enumN := 0
	if en, ok := p.(props.Enumerator); ok {
		enumN = en.EnumSize(parseTier(*tierS))
		*runs += enumN
	}
	tmp, err := os.MkdirTemp("", "errsim-run-")
	if err != nil {
		fmt.Fprintln(os.Stderr, err)
		return 2
	}
	defer os.RemoveAll(tmp)
	var deadline int64
	if *budget > 0 {
		deadline = time.Now().Add(*budget).Unix()
	}
	self, _ := os.Executable()
	type proc struct {
		cmd *exec.Cmd
		out string
	}
	var procs []proc
	for k := 0; k < *workers; k++ {
		out := filepath.Join(tmp, fmt.Sprintf("w%d.json", k))
		cmd := exec.Command(self, "worker", "-prop", *prop, "-tier", *tierS, "-seed", fmt.Sprint(*seed),
			"-offset", fmt.Sprint(k), "-step", fmt.Sprint(*workers), "-runs", fmt.Sprint(*runs),
			"-deadline", fmt.Sprint(deadline), "-known", *knownPath, "-out", out, "-shrink", fmt.Sprint(*shrinkBudget), "-maxsigs", fmt.Sprint(*maxSigs))
		cmd.Stderr = os.Stderr
		if raceEnabled {
			cmd.Env = append(os.Environ(), "GORACE=halt_on_error=1 exitcode=66 log_path="+filepath.Join(tmp, fmt.Sprintf("race%d", k)))
		}
		if err := cmd.Start(); err != nil {
			fmt.Fprintln(os.Stderr, "start worker:", err)
			return 2
		}
		procs = append(procs, proc{cmd, out})
	}
	total := workerOut{Kinds: map[string]int{}, Counters: map[string]int{}, Faults: map[string]int{}, KnownHits: map[string]int{}}
	keys := map[uint64]bool{}
	trouble := ""
	// watchdog: a worker that does not finish is infrastructure trouble (exit 2), never a violation
	limit := 20 * time.Minute
	if *budget > 0 {
		limit += *budget
	}
	watchdog := time.AfterFunc(limit, func() {
		for _, pr := range procs {
			pr.cmd.Process.Kill()
		}
	})
	defer watchdog.Stop()
	for k, pr := range procs {
		werr := pr.cmd.Wait()
		if ee, ok := werr.(*exec.ExitError); ok && ee.ExitCode() == 66 {
			// the race detector stopped this worker
			cur, _ := os.ReadFile(pr.out + ".cur")
			runIdx, _ := strconv.Atoi(strings.TrimSpace(string(cur)))
			logs, _ := filepath.Glob(filepath.Join(tmp, fmt.Sprintf("race%d.*", k)))
			raceLog := ""
			for _, l := range logs {
				b, _ := os.ReadFile(l)
				raceLog += string(b)
			}
			if len(raceLog) > 6000 {
				raceLog = raceLog[:6000]
			}
			site := raceSite(raceLog)
			v := props.Violation{Prop: outProp, Oracle: "data-race", Culprit: site, Expected: "no data race", Observed: "race detector report", Where: fmt.Sprintf("run %d", runIdx)}
			total.Violations = append(total.Violations, replayFile{Property: *prop, Tier: *tierS, VerifSeed: *seed, Run: runIdx, Signature: v.Sig(), Violation: v, FromSeed: true, RaceLog: raceLog})
			total.RawViol++
			continue
		}
		data, rerr := os.ReadFile(pr.out)
		if rerr != nil {
			trouble = fmt.Sprintf("worker %d produced no output (%v, %v)", k, werr, rerr)
			continue
		}
		var w workerOut
		if err := json.Unmarshal(data, &w); err != nil {
			trouble = fmt.Sprintf("worker %d output unparseable: %v", k, err)
			continue
		}
		if w.Trouble != "" {
			trouble = w.Trouble
		}
		total.Evaluations += w.Evaluations
		total.Discarded += w.Discarded
		total.Nontrivial += w.Nontrivial
		total.Deliveries += w.Deliveries
		total.Forwards += w.Forwards
		total.Duplicates += w.Duplicates
		total.Reorders += w.Reorders
		total.Fanouts += w.Fanouts
		total.Steps += w.Steps
		total.Warnings += w.Warnings
		total.RawViol += w.RawViol
		for _, x := range w.Keys {
			keys[x] = true
		}
		for a, b := range w.Kinds {
			total.Kinds[a] += b
		}
		for a, b := range w.Counters {
			total.Counters[a] += b
		}
		for a, b := range w.Faults {
			total.Faults[a] += b
		}
		for a, b := range w.KnownHits {
			total.KnownHits[a] += b
		}
		if len(total.Samples) < 5 {
			total.Samples = append(total.Samples, w.Samples...)
		}
		total.Violations = append(total.Violations, w.Violations...)
	}
	if trouble != "" {
		fmt.Fprintln(os.Stderr, "TROUBLE:", trouble)
		return 2
	}
	// dedupe violations by signature, keep the shortest tape
	bySig := map[string]replayFile{}
	for _, v := range total.Violations {
		if old, ok := bySig[v.Signature]; !ok || len(v.Tape) < len(old.Tape) {
			bySig[v.Signature] = v
		}
	}
	var sigs []string
	for s := range bySig {
		sigs = append(sigs, s)
	}
	sort.Strings(sigs)
	exit := 0
	for _, s := range sigs {
		rf := bySig[s]
		path := ""
		if *replays != "" {
			os.MkdirAll(*replays, 0o755)
			h := sha256.Sum256([]byte(s))
			path = filepath.Join(*replays, fmt.Sprintf("%s-%d-%s.json", *prop, *seed, hex.EncodeToString(h[:4])))
			data, _ := json.MarshalIndent(&rf, "", " ")
			if err := os.WriteFile(path, data, 0o644); err != nil {
				fmt.Fprintln(os.Stderr, err)
				return 2
			}
		}
		fmt.Printf("violation: %s\n  where:    %s\n  expected: %s\n  observed: %s\n  tree:     %s\n  cluster:  %v routes: %v faults: %v\n",
			s, rf.Violation.Where, rf.Violation.Expected, rf.Violation.Observed, rf.Desc.Tree, rf.Desc.Cluster, rf.Desc.Routes, rf.Desc.Faults)
		fmt.Printf("VIOLATION property=%s replay=%s\n", outProp, path)
		exit = 1
	}
	var knownLines []string
	for i := range known {
		k := &known[i]
		if k.Status != "known" || k.Property != outProp {
			continue
		}
		hits := total.KnownHits[k.key()]
		fmt.Printf("KNOWN-FINDING: property=%s oracle=%s %s (hit %d times in this run)\n", k.Property, k.Oracle, k.What, hits)
		knownLines = append(knownLines, fmt.Sprintf("%s: %d hits", k.key(), hits))
	}
	wall := time.Since(start).Seconds()
	if *evPath != "" {
		samples := make([]interface{}, 0, len(total.Samples))
		for _, s := range total.Samples {
			samples = append(samples, s)
		}
		if len(samples) == 0 {
			samples = append(samples, "no non-trivial run sampled")
		}
		var unusedKinds []string
		for k := gen.Kind(0); k < gen.NumKinds; k++ {
			if total.Kinds[k.String()] == 0 {
				unusedKinds = append(unusedKinds, k.String())
			}
		}
		perHour := 0.0
		if wall > 0 {
			perHour = float64(total.Evaluations) / wall * 3600
		}
		var extraEv interface{}
		if *extra != "" {
			if b, err := os.ReadFile(*extra); err == nil {
				var x map[string]interface{}
				if json.Unmarshal(b, &x) == nil {
					extraEv = x
				}
			}
		}
		ev := evidence{PropertyID: outProp, Tier: *tierS, Seed: int64(*seed), Level: *level, WallS: wall, Violations: len(sigs),
			Coverage: map[string]interface{}{
				"evaluations":         total.Evaluations,
				"distinct_nontrivial": len(keys),
				"rule":                p.Rule(),
				"samples":             samples,
				"nontrivial_runs":     total.Nontrivial,
				"discarded_by_generator": total.Discarded,
				"runs_per_hour":       int64(perHour),
				"seeds_per_hour":      int64(perHour),
				"simulated_steps":     total.Steps,
				"simulated_time_note": "logical time only: the library reads no clock; simulated time orders deliveries and is counted in steps",
				"transport_events": map[string]int{"deliveries": total.Deliveries, "forwards": total.Forwards,
					"duplicates": total.Duplicates, "reorders": total.Reorders, "fanouts": total.Fanouts,
					"unmarshal_warning_probe": total.Warnings},
				"faults_fired":          total.Faults,
				"constructors_used":     total.Kinds,
				"constructors_never_used_by_this_property": unusedKinds,
				"counters":              total.Counters,
				"raw_violations_seen":   total.RawViol,
				"known_findings_hit":    knownLines,
				"workers":               *workers,
				"race_build":            raceEnabled,
				"companion_layer":       extraEv,
				"enumerated_cases":      enumN,
				"exhaustive":            false,
				"components": componentsFor(outProp),
			},
			Assumptions: []string{
				"seeded sampling, not proof; bounds: tree depth<=7, <=24 nodes, <=6 processes, <=8 hops, <=64 deliveries per run",
				"a simulated process is a registry set, not an address space (DESIGN.md 8.3)",
			},
		}
		data, _ := json.MarshalIndent(&ev, "", " ")
		os.MkdirAll(filepath.Dir(*evPath), 0o755)
		if err := os.WriteFile(*evPath, data, 0o644); err != nil {
			fmt.Fprintln(os.Stderr, err)
			return 2
		}
	}
	fmt.Printf("%s %s seed=%d: %d runs (%d non-trivial, %d distinct), %d deliveries, %d raw violations, %d new signatures, %.1fs\n",
		*prop, *tierS, *seed, total.Evaluations, total.Nontrivial, len(keys), total.Deliveries, total.RawViol, len(sigs), wall)
	_ = strconv.Itoa
	_ = strings.TrimSpace
	return exit
}
