// Package model holds the small reference models the oracles compare the
// implementation against. They use public API only.
package model

import (
	"reflect"

	"github.com/cockroachdb/errors"
	"github.com/cockroachdb/errors/errbase"
)

// Mark is the documented identity of an error: its message and the full
// sequence of (type family, extension) marks of its chain.
type Mark struct {
	Msg   string
	Types []string
}

// Equal is the documented mark equivalence.
func (m Mark) Equal(o Mark) bool {
	if m.Msg != o.Msg || len(m.Types) != len(o.Types) {
		return false
	}
	for i := range m.Types {
		if m.Types[i] != o.Types[i] {
			return false
		}
	}
	return true
}

func safeMsg(e error) (s string) {
	defer func() {
		if r := recover(); r != nil {
			s = "PANIC"
		}
	}()
	return e.Error()
}

// MarkOf computes the mark of e. explicit maps layers created by
// errors.Mark to their reference (whose mark they carry).
func MarkOf(e error, explicit map[error]error) Mark {
	if reflect.TypeOf(e).Comparable() {
		if ref, ok := explicit[e]; ok {
			return MarkOf(ref, explicit)
		}
	}
	m := Mark{Msg: safeMsg(e)}
	for c := e; c != nil; c = errors.UnwrapOnce(c) {
		tm := errbase.GetTypeMark(c)
		m.Types = append(m.Types, tm.FamilyName+"::"+tm.Extension)
	}
	return m
}

// MarkExplainable reports whether Is(e, r) can be explained by mark
// equality alone (as opposed to object identity or a type's own Is method):
// some layer of e's chain, or of a multi-cause branch reachable from it, has
// a mark equal to r's.
func MarkExplainable(e, r error, explicit map[error]error) bool {
	rm := MarkOf(r, explicit)
	var rec func(e error) bool
	rec = func(e error) bool {
		for c := e; c != nil; c = errors.UnwrapOnce(c) {
			if MarkOf(c, explicit).Equal(rm) {
				return true
			}
			for _, b := range errbase.UnwrapMulti(c) {
				if rec(b) {
					return true
				}
			}
		}
		return false
	}
	return rec(e)
}
