package props

import (
	"encoding/json"
	"fmt"
	"sort"
	"strings"

	"errsim/gen"
	"errsim/obs"
	"errsim/tape"
	"errsim/world"

	"github.com/cockroachdb/errors"
	"github.com/cockroachdb/redact"
	"github.com/getsentry/sentry-go"
	pkgerrors "github.com/pkg/errors"
)

// C15 — the Sentry report is faithful to the error's structure.
type c15 struct{}

func init() { register(c15{}) }

func (c15) ID() string { return "C15" }

func (c15) Rule() string {
	return "each run: seeded tree (regular strings; 0..n stack-carrying layers of the library and of pkg/errors, multi-cause nodes, trees without any stack), observed locally and after " +
		"each of 1..4 hops between processes of which some may not know all types (stacks are re-parsed from text); the 'error types' lines equal those at the origin, the module is the domain of the outermost domain layer; oracle recomputed from public accessors over an independent pre-order walk: message prefix " +
		"(one-line source = most recent frame of the innermost stack on the single-cause spine + redacted verbose rendering), an exception for every live StackTrace() layer (application-defined type included), " +
		"in 1/3 of the deliveries the received error re-wrapped by the relay with a live stack (mixed live/re-parsed chain), one composition line per layer, one exception per stack-carrying layer (outermost first, frames deep-equal, domain as module; " +
		"one synthetic exception when none), one 'error types' line per layer; nil gives nothing; distinct = (constructor-shape signature x route length); non-trivial = >= 2 layers"
}

func (c15) Run(t *tape.Tape, tier Tier) *Result {
	res := &Result{}
	cfg := gen.Config{Alpha: gen.Regular, Swarm: true, MaxDepth: 6, MaxNodes: 12, Boost: gen.GStack | gen.GMulti, BoostFactor: 2, UserStack: true}
	if tier == Thorough {
		cfg.MaxDepth, cfg.MaxNodes = 7, 20
	}
	if t.Draw(3) == 2 {
		// the property does not restrict string contents
		cfg.Alpha = gen.Hostile
	}
	g := gen.New(t, cfg)
	spec := g.Tree()
	sim := world.NewSim(t)
	nproc := 2 + t.Draw(3)
	sim.AddProcess(world.Full())
	sim.At(0)
	e0 := gen.Build(spec)
	// "decoded" includes what a process makes of types it does not know
	var fams []string
	if m0, p0 := obs.Encode(e0); p0 == "" {
		fams = familiesOf(m0)
	}
	for i := 1; i < nproc; i++ {
		if t.Bool(1, 3) {
			sim.AddProcess(drawUnknowing(t, fams))
		} else {
			sim.AddProcess(world.Full())
		}
	}
	sim.At(0)
	res.Desc.Tree = spec.Expr()
	res.Desc.Cluster = clusterDesc(sim)
	res.Kinds = kindsOf(spec)
	if ev, ex := errors.BuildSentryReport(nil); ev != nil || ex != nil {
		res.add(Violation{Prop: "C15", Oracle: "nil-gives-nothing", Culprit: "BuildSentryReport", Expected: "nil, nil", Observed: "non-nil"})
	}
	nStacks := 0
	// frames per stack-carrying layer as seen in the report at the origin:
	// the report of a transferred copy (whose stacks are re-parsed from their
	// printed form) must show the same frames
	var originFrames []string
	originTypes := ""
	// a layer of an application-defined type with StackTrace() loses its
	// stack on the wire (nothing transfers it): the comparison of local and
	// transferred frames does not apply to such trees
	userStack := spec.HasKind(func(k gen.Kind) bool { return k == gen.WUStack })
	check := func(e error, where string, rewrapped bool) {
		p := obs.S(func() string {
			ev, extras := errors.BuildSentryReport(e)
			if ev == nil {
				res.add(Violation{Prop: "C15", Oracle: "non-nil-gives-event", Culprit: "BuildSentryReport", Expected: "event", Observed: "nil", Where: where})
				return ""
			}
			layers := obs.Tree(e, false)
			// --- message
			prefix := ""
			if f, l, _, ok := errors.GetOneLineSource(e); ok {
				prefix = fmt.Sprintf("%s:%d: ", f, l)
			}
			verbose := redact.Sprintf("%+v", e).Redact().StripMarkers()
			sep := "\n-- report composition:\n"
			if !strings.HasPrefix(ev.Message, prefix+verbose+sep) {
				exp := prefix + verbose + sep
				res.add(Violation{Prop: "C15", Oracle: "message-prefix", Culprit: firstDiffLine(exp, ev.Message), Expected: short(exp), Observed: short(ev.Message), Where: where})
			} else {
				comp := strings.Split(ev.Message[len(prefix+verbose+sep):], "\n")
				if n := len(comp); n > 0 && comp[n-1] == "(check the extra data payloads)" {
					comp = comp[:n-1]
				}
				if len(comp) != len(layers) {
					res.add(Violation{Prop: "C15", Oracle: "composition-line-per-layer", Culprit: typeOfLayer(layers[0]), Expected: fmt.Sprint(len(layers), " lines"), Observed: fmt.Sprint(len(comp), " lines: ", short(strings.Join(comp, " / "))), Where: where})
				}
			}
			// --- the source prefix names the innermost recorded stack of the
			// single-cause spine (its most recent call frame), computed here
			// from the per-layer reportable stacks, not from GetOneLineSource
			wantSrc := ""
			for c := e; c != nil; c = errors.UnwrapOnce(c) {
				if st := errors.GetReportableStackTrace(c); st != nil && len(st.Frames) > 0 {
					f := st.Frames[len(st.Frames)-1]
					path := strings.ReplaceAll(f.AbsPath, "\\", "/")
					wantSrc = fmt.Sprintf("%s:%d: ", path[strings.LastIndexByte(path, '/')+1:], f.Lineno)
				}
			}
			if wantSrc != prefix && !(wantSrc == "" || strings.HasPrefix(wantSrc, ":")) {
				res.add(Violation{Prop: "C15", Oracle: "source-is-innermost-stack", Culprit: typeOfLayer(layers[0]), Expected: wantSrc, Observed: prefix, Where: where})
			}
			// --- every layer that exposes a live pkg/errors-style stack
			// (StackTrace() with at least one frame) has an exception whose
			// frames are that stack, oldest call first
			type tracer interface{ StackTrace() pkgerrors.StackTrace }
			for _, n := range layers {
				tr, ok := n.Err.(tracer)
				if !ok || len(tr.StackTrace()) == 0 {
					continue
				}
				pst := tr.StackTrace()
				var wantLines []string
				for i := len(pst) - 1; i >= 0; i-- {
					wantLines = append(wantLines, fmt.Sprintf("%d", pst[i]))
				}
				found := false
				var seen []string
				for _, exc := range ev.Exception {
					if exc.Stacktrace == nil {
						continue
					}
					var lines []string
					for _, f := range exc.Stacktrace.Frames {
						lines = append(lines, fmt.Sprint(f.Lineno))
					}
					seen = append(seen, strings.Join(lines, ","))
					if strings.Join(lines, ",") == strings.Join(wantLines, ",") {
						found = true
					}
				}
				if !found {
					res.add(Violation{Prop: "C15", Oracle: "exception-for-live-stack", Culprit: typeOfLayer(n), Expected: "an exception with frame lines " + short(strings.Join(wantLines, ",")), Observed: short(strings.Join(seen, " / ")), Where: where})
				}
			}
			// --- exceptions
			var stacks []string
			for _, n := range layers {
				if st := errors.GetReportableStackTrace(n.Err); st != nil {
					js, _ := json.Marshal(st)
					stacks = append(stacks, string(js))
				}
			}
			nStacks = len(stacks)
			module := string(errors.GetDomain(e))
			// the outermost domain annotation of the single-cause spine, read
			// from that layer's own details (not through GetDomain)
			for _, n := range layers {
				if strings.Trim(n.Path, "c") != "" {
					break // left the spine
				}
				if n.GoType == "*domains.withDomain" {
					if len(n.Safe) > 0 && n.Safe[0] != module {
						res.add(Violation{Prop: "C15", Oracle: "module-is-outermost-domain", Culprit: typeOfLayer(n), Expected: n.Safe[0], Observed: module, Where: where})
					}
					module = n.Safe[0]
					break
				}
			}
			if len(stacks) == 0 {
				if len(ev.Exception) != 1 || ev.Exception[0].Stacktrace != nil {
					res.add(Violation{Prop: "C15", Oracle: "synthetic-exception", Culprit: typeOfLayer(layers[0]), Expected: "1 exception without stack", Observed: fmt.Sprint(len(ev.Exception)), Where: where})
				}
			} else if len(ev.Exception) != len(stacks) {
				res.add(Violation{Prop: "C15", Oracle: "exception-per-stack-layer", Culprit: typeOfLayer(layers[0]), Expected: fmt.Sprint(len(stacks)), Observed: fmt.Sprint(len(ev.Exception)), Where: where})
			} else {
				for j := range stacks {
					js, _ := json.Marshal(ev.Exception[j].Stacktrace)
					if string(js) != stacks[j] {
						res.add(Violation{Prop: "C15", Oracle: "exception-order-and-frames", Culprit: fmt.Sprintf("exception[%d]of%d", j, len(stacks)), Expected: short(stacks[j]), Observed: short(string(js)), Where: where})
						break
					}
				}
			}
			var frames []string
			for _, exc := range ev.Exception {
				js, _ := json.Marshal(exc.Stacktrace)
				frames = append(frames, string(js))
			}
			if where == "origin (local)" {
				originFrames = frames
			} else if rewrapped || userStack {
				res.count("frames-vs-origin-not-applicable", 1)
			} else if fmt.Sprint(frames) != fmt.Sprint(originFrames) {
				idx := 0
				for idx < len(frames) && idx < len(originFrames) && frames[idx] == originFrames[idx] {
					idx++
				}
				e1, o1 := "", ""
				if idx < len(originFrames) {
					e1 = originFrames[idx]
				}
				if idx < len(frames) {
					o1 = frames[idx]
				}
				res.add(Violation{Prop: "C15", Oracle: "exception-frames-local-vs-transferred", Culprit: fmt.Sprintf("exception[%d]of%d", idx, len(originFrames)), Expected: short(e1), Observed: short(o1), Where: where})
			}
			for j, exc := range ev.Exception {
				if exc.Module != module {
					res.add(Violation{Prop: "C15", Oracle: "exception-module-is-domain", Culprit: fmt.Sprintf("exception[%d]", j), Expected: module, Observed: exc.Module, Where: where})
					break
				}
			}
			// --- error types extra
			var want []string
			for _, n := range layers {
				sd := errors.GetSafeDetails(n.Err)
				fm := "*"
				if sd.OriginalTypeName != sd.ErrorTypeMark.FamilyName {
					fm = sd.ErrorTypeMark.FamilyName
				}
				want = append(want, fmt.Sprintf("%s (%s::%s)", sd.OriginalTypeName, fm, sd.ErrorTypeMark.Extension))
			}
			got := strings.Split(strings.TrimSuffix(fmt.Sprint(extras["error types"]), "\n"), "\n")
			sort.Strings(want)
			gs := append([]string(nil), got...)
			sort.Strings(gs)
			if where == "origin (local)" {
				originTypes = strings.Join(gs, "\n")
			} else if !rewrapped && originTypes != "" && strings.Join(gs, "\n") != originTypes {
				res.add(Violation{Prop: "C15", Oracle: "error-types-as-at-origin", Culprit: firstDiffLine(originTypes, strings.Join(gs, "\n")), Expected: short(originTypes), Observed: short(strings.Join(gs, "\n")), Where: where})
			}
			if strings.Join(want, "\n") != strings.Join(gs, "\n") {
				res.add(Violation{Prop: "C15", Oracle: "error-types-line-per-layer", Culprit: typeOfLayer(layers[0]), Expected: short(strings.Join(want, " / ")), Observed: short(strings.Join(gs, " / ")), Where: where})
			}
			return ""
		})
		if p != "" {
			res.add(Violation{Prop: "C15", Oracle: "report-panics", Culprit: obs.PanicSite(p), Expected: "no panic", Observed: short(p), Where: where})
		}
	}
	check(e0, "origin (local)", false)
	m1, p := obs.Encode(e0)
	route := drawRoute(t, nproc, 4)
	foreign := false
	if p == "" {
		res.Desc.Routes = []string{routeString(append([]int{0}, route...))}
		sim.DupNum = 0
		sim.Send(0, 1, []int{0}, route, m1)
		// the same error as sent by a peer whose source paths look different
		// (a Windows build: "C:/..."): only the paths of the frames may differ
		if nStacks > 0 && t.Bool(1, 3) {
			if m2 := foreignPaths(m1); m2 != nil {
				foreign = true
				sim.Stats.Faults["stack-paths=foreign"]++
				res.Desc.Faults = append(res.Desc.Faults, "stack-paths=foreign")
				sim.Send(1, 1, []int{0}, route, m2)
			}
		}
	}
	type frameKey struct{ proc, hop int }
	framesAt := map[frameKey][2][]sentry.Frame{}
	collect := func(e error) []sentry.Frame {
		var out []sentry.Frame
		obs.S(func() string {
			ev, _ := errors.BuildSentryReport(e)
			if ev != nil {
				for _, exc := range ev.Exception {
					if exc.Stacktrace != nil {
						out = append(out, exc.Stacktrace.Frames...)
					}
				}
			}
			return ""
		})
		return out
	}
	sim.OnDeliver = func(d *world.Delivery) {
		where := fmt.Sprintf("hop %d at process %d via %s", d.Msg.Hop, d.Proc.ID, routeString(d.Msg.Path))
		if d.Panic != "" || d.RePanic != "" {
			return
		}
		sim.Logf("check hop %d", d.Msg.Hop)
		if d.Msg.Flow == 0 {
			check(d.Err, where, false)
			// a relay annotates what it received before passing it on: live
			// stacks outside, re-parsed stacks inside
			if t.Bool(1, 3) {
				var e2 error
				switch t.Draw(3) {
				case 0:
					e2 = rewrapStack(d.Err)
				case 1:
					e2 = rewrapWrap(d.Err)
				default:
					e2 = gen.NewUWrapStack(d.Err, "relay")
				}
				sim.Stats.Faults["rewrapped-at-relay"]++
				check(e2, where+" (re-wrapped by the relay)", true)
			}
		}
		if foreign {
			k := frameKey{d.Proc.ID, d.Msg.Hop}
			pair := framesAt[k]
			pair[d.Msg.Flow] = collect(d.Err)
			framesAt[k] = pair
			if a, b := pair[0], pair[1]; a != nil && b != nil {
				if len(a) != len(b) {
					res.add(Violation{Prop: "C15", Oracle: "frames-with-foreign-paths", Culprit: "frame-count", Expected: fmt.Sprint(len(a)), Observed: fmt.Sprint(len(b)), Where: where})
				} else {
					for i := range a {
						if a[i].Lineno != b[i].Lineno || a[i].Function != b[i].Function || a[i].Module != b[i].Module || "C:"+a[i].AbsPath != b[i].AbsPath {
							res.add(Violation{Prop: "C15", Oracle: "frames-with-foreign-paths", Culprit: "frame-fields",
								Expected: fmt.Sprintf("%s %s C:%s:%d", a[i].Module, a[i].Function, a[i].AbsPath, a[i].Lineno),
								Observed: fmt.Sprintf("%s %s %s:%d", b[i].Module, b[i].Function, b[i].AbsPath, b[i].Lineno), Where: where})
							break
						}
					}
				}
			}
		}
	}
	sim.Run()
	res.Stats = sim.Stats
	res.LogDigest = sim.LogDigest()
	res.count("stack-layers", nStacks)
	res.Nontrivial = len(obs.Tree(e0, false)) >= 2
	res.Key = fmt.Sprintf("%s|%d", spec.Shape(), len(route))
	return res
}

//go:noinline
func rewrapStack(e error) error { return errors.WithStack(e) }

//go:noinline
func rewrapWrap(e error) error { return errors.Wrap(e, "relay") }

// foreignPaths rewrites the printed stacks inside the reportable payloads of
// an encoded error so that every source path starts with "C:" (as captured
// by a peer on another platform). Returns nil if nothing was rewritten.
func foreignPaths(data []byte) []byte {
	enc, err := world.ParseWire(data)
	if err != nil {
		return nil
	}
	n := 0
	world.WalkWire(enc, false, func(w *world.WireNode) {
		d := w.Details()
		fam := d.ErrorTypeMark.FamilyName
		if !(strings.HasSuffix(fam, "withstack.withStack") || strings.HasSuffix(fam, "errors.withStack") || strings.HasSuffix(fam, "errors.fundamental")) {
			return
		}
		for i, s := range d.ReportablePayload {
			if strings.Contains(s, "\n\t/") {
				d.ReportablePayload[i] = strings.ReplaceAll(s, "\n\t/", "\n\tC:/")
				n++
			}
		}
	})
	if n == 0 {
		return nil
	}
	out, err := enc.Marshal()
	if err != nil {
		return nil
	}
	return out
}
