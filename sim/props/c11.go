package props

import (
	"fmt"

	"errsim/gen"
	"errsim/obs"
	"errsim/tape"
	"errsim/world"

	"github.com/cockroachdb/errors/errbase"
)

// C11 — annotations survive network transfer between knowing processes.
type c11 struct{}

func init() { register(c11{}) }

func (c11) ID() string { return "C11" }

func (c11) Rule() string {
	return "each run: seeded tree biased towards annotation wrappers (regular strings), 2..5 knowing processes, one route of 1..8 hops with duplication/delay; " +
		"every public accessor, per-layer safe details (barrier/secondary layers excepted), per-layer reportable stack frames and the one-line source are compared " +
		"with their values before the first hop after every delivery; origin and relays may observe the error before sending it (1/3), a relay may wrap it in generated layers and send that on " +
		"as a new flow whose reference values are the relay's own (1/6), foreign-architecture errnos (1/4); distinct = (constructor-shape signature x route length); " +
		"non-trivial = tree has >= 2 layers and at least one accessor has a non-default value at the origin"
}

var accessorDefaults = map[string]string{
	"GetAllHints": "[]", "FlattenHints": "", "GetAllDetails": "[]", "FlattenDetails": "", "GetAllIssueLinks": "[]", "GetTelemetryKeys": "[]",
	"GetDomain": "error domain: <none>", "GetContextTags": "", "NotInDomain": "false false true false", "EnsureNotInDomain": "true true true", "HasAssertionFailure": "false", "IsAssertionFailure": "false",
	"HasUnimplementedError": "false", "IsUnimplementedError": "false", "HasIssueLink": "false", "IsIssueLink": "false",
	"GetHTTPCode": "-1", "GetGrpcCode": "Unknown", "IsPermission": "false", "IsExist": "false", "IsNotExist": "false", "IsTimeout": "false",
	"GetOneLineSource": ":0::false",
}

// hasDecoder reports whether a family has a decoder in the full registries.
func hasDecoder(family string) bool {
	k := errbase.TypeKey(family)
	if _, ok := world.Base.LeafDecoders[k]; ok {
		return true
	}
	if _, ok := world.Base.Decoders[k]; ok {
		return true
	}
	_, ok := world.Base.MultiCauseDecoders[k]
	return ok
}

// foreignPredicateLayer reports whether some visible layer answers the OS
// predicates through its own methods (Timeout() / Is()) although no process
// can know its type (no decoder exists for it): such a type is outside
// "processes that know the types".
func foreignPredicateLayer(nodes []obs.Node) bool {
	for _, n := range nodes {
		_, isT := n.Err.(interface{ Timeout() bool })
		_, isI := n.Err.(interface{ Is(error) bool })
		if (isT || isI) && !hasDecoder(markFamily(n.Mark)) {
			return true
		}
	}
	return false
}

func markFamily(mark string) string {
	for i := 0; i+1 < len(mark); i++ {
		if mark[i] == ':' && mark[i+1] == ':' {
			return mark[:i]
		}
	}
	return mark
}

func (c11) Run(t *tape.Tape, tier Tier) *Result {
	res := &Result{}
	cfg := gen.Config{Alpha: gen.Regular, Swarm: true, MaxDepth: 6, MaxNodes: 14, Boost: gen.GAnnot | gen.GStack | gen.GOS, BoostFactor: 3}
	maxHops := 4
	if tier == Thorough {
		cfg.MaxDepth, cfg.MaxNodes = 7, 24
		maxHops = 8
	}
	g := gen.New(t, cfg)
	spec := g.Tree()
	sim := world.NewSim(t)
	nproc := 2 + t.Draw(4)
	for i := 0; i < nproc; i++ {
		sim.AddProcess(world.Full())
	}
	sim.At(0)
	e0 := gen.Build(spec)
	want := obs.Tree(e0, true)
	acc0 := obs.Accessors(e0)
	res.Desc.Tree = spec.Expr()
	res.Desc.Cluster = clusterDesc(sim)
	res.Kinds = kindsOf(spec)
	sim.ExerciseDen = 3
	if t.Bool(1, 3) {
		obs.Exercise(e0)
		sim.Stats.Faults["observed-before-forwarding"]++
	}
	m1, p := obs.Encode(e0)
	if p != "" {
		res.add(Violation{Prop: "C11", Oracle: "encode-at-origin", Culprit: typeOfLayer(want[0]), Expected: "no panic", Observed: p})
		return res
	}
	if spec.HasKind(func(k gen.Kind) bool { return k == gen.LErrno }) && t.Bool(1, 4) {
		if d2, n := world.ForeignArchErrno(m1); n > 0 {
			m1 = d2
			sim.Stats.Faults["errno-foreign-arch"] += n
			res.Desc.Faults = append(res.Desc.Faults, "errno-foreign-arch")
		}
	}
	skipPred := foreignPredicateLayer(want)
	route := drawRoute(t, nproc, maxHops)
	res.Desc.Routes = []string{routeString(append([]int{0}, route...))}
	sim.Send(0, 1, []int{0}, route, m1)
	nondefault := 0
	for _, kv := range acc0 {
		if accessorDefaults[kv.K] != kv.V {
			nondefault++
		}
	}
	// per flow: what was observed where the flow started (flow 0: the
	// origin; further flows: a relay that annotated what it had received)
	type origin struct {
		want     []obs.Node
		acc      []obs.KV
		skipPred bool
	}
	origins := map[int]origin{0: {want, acc0, skipPred}}
	nextFlow := 1
	sim.OnDeliver = func(d *world.Delivery) {
		where := fmt.Sprintf("flow %d hop %d at process %d via %s", d.Msg.Flow, d.Msg.Hop, d.Proc.ID, routeString(d.Msg.Path))
		o := origins[d.Msg.Flow]
		want, acc0, skipPred := o.want, o.acc, o.skipPred
		if d.Panic != "" || d.RePanic != "" {
			res.add(Violation{Prop: "C11", Oracle: "transfer", Culprit: typeOfLayer(want[0]), Expected: "no panic", Observed: d.Panic + d.RePanic, Where: where})
			return
		}
		if d.Forward && nextFlow < 3 && t.Bool(1, 6) {
			over := g.Over(1 + t.Draw(3))
			gen.GivenErr = d.Err
			e2 := gen.Build(over)
			gen.GivenErr = nil
			if data, p := obs.Encode(e2); p == "" {
				w2 := obs.Tree(e2, true)
				origins[nextFlow] = origin{w2, obs.Accessors(e2), foreignPredicateLayer(w2)}
				sim.Stats.Faults["rewrapped-at-relay"]++
				res.Desc.Tree += fmt.Sprintf(" ; relay %d wraps flow %d as flow %d: %s", d.Proc.ID, d.Msg.Flow, nextFlow, over.Expr())
				sim.Send(nextFlow, 1, d.Msg.Path[:len(d.Msg.Path)-1], append([]int{d.Proc.ID}, d.Msg.Route...), data)
				nextFlow++
			}
		}
		acc := obs.Accessors(d.Err)
		for i, kv := range acc0 {
			if acc[i].V == kv.V {
				continue
			}
			switch kv.K {
			case "IsPermission", "IsExist", "IsNotExist", "IsTimeout":
				if skipPred {
					res.count("predicates-skipped-foreign-type", 1)
					continue
				}
			}
			res.add(Violation{Prop: "C11", Oracle: "accessor", Culprit: kv.K, Expected: short(kv.V), Observed: short(acc[i].V), Where: where})
		}
		got := obs.Tree(d.Err, true)
		sim.Logf("obs %s", obs.Shape(got))
		if obs.Shape(got) != obs.Shape(want) {
			res.add(Violation{Prop: "C11", Oracle: "shape", Culprit: typeOfLayer(want[0]), Expected: obs.Shape(want), Observed: obs.Shape(got), Where: where})
			return
		}
		for i := range want {
			a, b := want[i], got[i]
			if !isBarrierOrSecondary(a.TypeName) && fmt.Sprintf("%q", a.Safe) != fmt.Sprintf("%q", b.Safe) && !(len(a.Safe) == 0 && len(b.Safe) == 0) {
				res.add(Violation{Prop: "C11", Oracle: "layer-safe-details", Culprit: typeOfLayer(a),
					Expected: short(fmt.Sprintf("%q", a.Safe)), Observed: short(fmt.Sprintf("%q", b.Safe)), Where: where + " layer " + a.Path})
			}
			if a.Stack != b.Stack {
				res.add(Violation{Prop: "C11", Oracle: "layer-stack-frames", Culprit: typeOfLayer(a), Expected: short(a.Stack), Observed: short(b.Stack), Where: where + " layer " + a.Path})
			}
		}
	}
	sim.Run()
	res.Stats = sim.Stats
	res.LogDigest = sim.LogDigest()
	res.count("accessors-nondefault-at-origin", nondefault)
	res.Nontrivial = len(want) >= 2 && nondefault >= 1
	res.Key = fmt.Sprintf("%s|%d", spec.Shape(), len(route))
	return res
}
