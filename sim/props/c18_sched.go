//go:build c18

package props

import (
	"fmt"
	"sort"
	"strings"

	"errsim/gen"
	"errsim/sched"
	"errsim/tape"

	"github.com/cockroachdb/errors/errbase"
	"github.com/cockroachdb/errors/verifyield"
)

func registryKeys() string {
	a, b, c, d, e, f := errbase.VerifRegisteredKeys()
	return fmt.Sprint(a, b, c, d, e, f)
}

// c18Cooperative is layers 1 and 2 of C18: real goroutines parked and
// released one at a time at yield points compiled into the library, every
// scheduling decision drawn from the tape, plus the immutability monitor.
func c18Cooperative(t *tape.Tape, tier Tier, res *Result) {
	cfg := gen.Config{Alpha: gen.Regular, Swarm: true, MaxDepth: 5, MaxNodes: 10, Boost: gen.GMulti | gen.GAnnot, BoostFactor: 2, Alias: true}
	if tier == Thorough {
		cfg.MaxDepth, cfg.MaxNodes = 6, 16
	}
	if t.Bool(1, 4) {
		cfg.Alpha = gen.Hostile
	}
	g := gen.New(t, cfg)
	spec := g.Tree()
	// The shared value is not touched before the concurrent phase: solo
	// results come from a twin built from the same spec, so that a lazily
	// filled cache is still empty when the observers start.
	shared, twin, state := c18Values(t, spec)
	res.Desc.Tree = spec.Expr()
	res.Kinds = kindsOf(spec)
	fp0 := sched.Take(shared)
	reg0 := registryKeys()
	ops := c18Ops(shared, c18Fresh(spec))
	soloOps := c18Ops(twin, c18Fresh(spec))
	// solo results, and the number of yields each op passes (measured with a counting hook)
	solo := make([]string, len(ops))
	yieldsOf := make([]int, len(ops))
	for i, op := range soloOps {
		n := 0
		verifyield.Hook = func(int) { n++ }
		solo[i] = op.fn()
		verifyield.Hook = nil
		yieldsOf[i] = n
	}
	nG := 16 + t.Draw(17)
	s := &sched.Sched{T: t, Mode: t.Draw(2), Den: 8 + t.Draw(57)}
	total := 0
	opOf := make([]int, nG)
	for i := 0; i < nG; i++ {
		k := t.Draw(len(ops))
		opOf[i] = k
		total += yieldsOf[k]
		s.Tasks = append(s.Tasks, &sched.Task{ID: i, Name: ops[k].name, Fn: ops[k].fn})
	}
	if s.Mode == 1 {
		s.PreemptAt = map[int]bool{}
		for d := 1 + t.Draw(6); d > 0 && total > 0; d-- {
			s.PreemptAt[1+t.Draw(total)] = true
		}
	}
	// immutability monitor
	mutated := false
	s.OnStep = func(last *sched.Task, site int) {
		if mutated {
			return
		}
		now := sched.Take(shared)
		if d := fp0.Diff(now); d != "" && fp0.Synchronised(now) {
			// a lazily filled field guarded by its own Once / mutex / atomic:
			// race-free and deterministic, hence within the property
			res.count("synchronised-lazy-state", 1)
			fp0 = now
		} else if d != "" {
			mutated = true
			res.add(Violation{Prop: "C18", Oracle: "shared-value-mutated", Culprit: stablePath(d), Expected: "no write to the shared error by a read-only observer",
				Observed: "changed at " + d + " while running " + last.Name, Where: fmt.Sprintf("%s value, after a step of task %d (%s) at yield site %d", state, last.ID, last.Name, site)})
		}
		if r := registryKeys(); r != reg0 {
			mutated = true
			res.add(Violation{Prop: "C18", Oracle: "registry-mutated", Culprit: last.Name, Expected: "registries unchanged", Observed: "key sets changed", Where: last.Name})
		}
	}
	verifyield.Hook = s.Hook
	s.Run()
	verifyield.Hook = nil
	if s.Stuck {
		// a task blocked on a lock held by a parked task: the cooperative
		// layer cannot schedule this run (the race layer still applies)
		res.Discarded = true
		res.Violations = nil
		return
	}
	for i, task := range s.Tasks {
		if task.Result != solo[opOf[i]] {
			res.add(Violation{Prop: "C18", Oracle: "result-differs-from-solo", Culprit: task.Name, Expected: short(solo[opOf[i]]), Observed: short(task.Result),
				Where: fmt.Sprintf("%s value, task %d of %d, %d preemptions, schedule %s", state, i, nG, s.Preemptions, s.Hash())})
		}
	}
	res.Stats.Faults = map[string]int{"preempt": s.Preemptions}
	res.Stats.Steps = s.Yields
	res.count("yields", s.Yields)
	res.count("goroutines", nG)
	res.count("preemption-pairs", len(s.Pairs))
	res.count("state:"+state, 1)
	var pairs []string
	for p := range s.Pairs {
		pairs = append(pairs, fmt.Sprint(p[0]))
	}
	sort.Strings(pairs)
	res.Desc.Notes = append(res.Desc.Notes, fmt.Sprintf("%d goroutines on a %s value, mode %d, %d yields, %d preemptions, schedule %s", nG, state, s.Mode, s.Yields, s.Preemptions, s.Hash()))
	res.LogDigest = s.Hash() + "|" + fmt.Sprint(len(fp0))
	res.Nontrivial = s.Preemptions >= 1 && spec.Size() >= 2
	res.Key = spec.Shape() + "|" + s.Hash()
}

// stablePath reduces a fingerprint path to the field that changed.
func stablePath(p string) string {
	p = stableIdx(p)
	if i := strings.Index(p, " "); i >= 0 {
		p = p[:i]
	}
	p = strings.TrimRight(p, "*")
	if i := strings.LastIndexByte(p, '.'); i >= 0 {
		p = p[i+1:]
	}
	if i := strings.IndexByte(p, '#'); i >= 0 {
		p = p[:i]
	}
	return "field:" + strings.TrimRight(p, "*[]")
}

func stableIdx(p string) string {
	var b strings.Builder
	skip := false
	for _, r := range p {
		switch {
		case r == '[':
			skip = true
			b.WriteString("[]")
		case r == ']':
			skip = false
		case !skip:
			b.WriteRune(r)
		}
	}
	return b.String()
}
