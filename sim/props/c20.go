package props

import (
	"context"
	"fmt"
	"strings"
	"sync"
	"time"

	"errsim/gen"
	"errsim/grpcsim"
	"errsim/obs"
	"errsim/tape"
	"errsim/world"

	"github.com/cockroachdb/errors/errorspb"
	"github.com/cockroachdb/errors/extgrpc"
	errgrpc "github.com/cockroachdb/errors/grpc"
	"github.com/cockroachdb/logtags"
	gogorpc "github.com/gogo/googleapis/google/rpc"
	"github.com/gogo/protobuf/types"
	gogostatus "github.com/gogo/status"
	"google.golang.org/grpc/codes"
	"google.golang.org/grpc/metadata"
	grpcstatus "google.golang.org/grpc/status"
)

// C20 — the gRPC interceptors deliver the handler's error to the caller.
type c20 struct{}

func init() { register(c20{}) }

func (c20) ID() string { return "C20" }

func (c20) Rule() string {
	return "each run: 1..4 generated trees (regular strings) plus nil and a bare gRPC status error are registered with an Echo handler behind UnaryServerInterceptor on a real gRPC server " +
		"over an in-memory network whose writes are fragmented by a function of (seed, direction, offset); 1..8 client goroutines issue 2..12 RPCs concurrently through UnaryClientInterceptor " +
		"and through a client without it; a status error with details is among the handler errors; a third of the caller contexts carry log tags; a recovery middleware reports server-side panics; for 1/6 of the RPCs the caller's context is ended between the arrival of the reply and its processing by the client interceptor; oracle per RPC: nil stays nil, status errors keep code and message, any other error observed at the client equals the same error transferred " +
		"directly with EncodeError/DecodeError (visible tree, Is row, accessors, %v, %+v, re-encoded bytes) and the plain client sees the code attached with WrapWithGrpcCode (Unknown otherwise); " +
		"distinct = (shapes of the handler errors x number of clients x RPC assignment); non-trivial = at least one generated tree with >= 2 layers was transferred"
}

var (
	c20Cluster     *grpcsim.Cluster
	c20ClusterSeed uint64
)

func (c20) Run(t *tape.Tape, tier Tier) *Result {
	res := &Result{}
	res.Stats.Faults = map[string]int{}
	seed := uint64(t.Draw(1 << 16))
	// one cluster per worker process and fragmentation seed
	if c20Cluster == nil || c20ClusterSeed != seed {
		if c20Cluster != nil {
			c20Cluster.Close()
		}
		c, err := grpcsim.NewCluster(seed)
		if err != nil {
			panic("grpcsim: " + err.Error())
		}
		c20Cluster, c20ClusterSeed = c, seed
	}
	cl := c20Cluster
	cl.Reset()
	world.Full().Install()
	cfg := gen.Config{Alpha: gen.Regular, Swarm: true, MaxDepth: 5, MaxNodes: 10, LongStrings: true, Boost: gen.GGrpc, BoostFactor: 3}
	if tier == Thorough {
		cfg.MaxDepth, cfg.MaxNodes = 7, 22
	}
	g := gen.New(t, cfg)
	type handlerErr struct {
		id   string
		err  error
		spec *gen.Node
	}
	var hs []handlerErr
	ntrees := 1 + t.Draw(4)
	shapes := ""
	for i := 0; i < ntrees; i++ {
		spec := g.Tree()
		if i > 0 {
			spec = g.Sub(cfg.MaxNodes)
		}
		hs = append(hs, handlerErr{fmt.Sprintf("tree%d", i), gen.Build(spec), spec})
		shapes += spec.Shape() + ";"
		res.Desc.Tree += spec.Expr() + " ; "
		res.Kinds = append(res.Kinds, kindsOf(spec)...)
	}
	hs = append(hs, handlerErr{"nil", nil, nil})
	hs = append(hs, handlerErr{"status", grpcstatus.Error(codes.Code(1+t.Draw(20)), "TKUstatusQ message"), nil})
	hs = append(hs, handlerErr{"gogostatus", gogostatus.Error(codes.Code(1+t.Draw(20)), "TKUgogoQ message"), nil})
	// a status error that carries details (as a relay passing on a
	// downstream service's status does)
	if st, err := gogostatus.New(codes.Code(1+t.Draw(20)), "TKUdetailsQ message").WithDetails(
		&errorspb.StringsPayload{Details: []string{"d1", "TKUdetQ"}}, &errorspb.StringPayload{Msg: "second"}); err == nil {
		hs = append(hs, handlerErr{"gogostatus-details", st.Err(), nil})
	}
	// a status error with a detail of a message type this program does not
	// contain (a newer peer's detail): passes through with the detail intact
	if st := gogostatus.FromProto(&gogorpc.Status{Code: int32(1 + t.Draw(16)), Message: "TKUunkQ message",
		Details: []*types.Any{{TypeUrl: "type.googleapis.com/errsim.NotLinkedIn", Value: []byte{0x0a, 0x03, 'a', 'b', 'c'}}}}); st != nil {
		hs = append(hs, handlerErr{"gogostatus-unknown-detail", st.Err(), nil})
	}
	// a relay: the handler called a downstream service without the client
	// interceptor and returns the status it got (which carries that service's
	// encoded error as a detail) wrapped in its own context
	{
		down := g.Sub(4)
		if enc, p := obs.Encode(gen.Build(down)); p == "" {
			var ee errorspb.EncodedError
			if ee.Unmarshal(enc) == nil {
				if st, err := gogostatus.New(codes.Code(1+t.Draw(16)), "TKUdownQ").WithDetails(&ee); err == nil {
					rel := &gen.Node{K: gen.WWrap, S: []gen.Str{g.SG.Str(true)}, Kids: []*gen.Node{{K: gen.LGiven}}}
					gen.GivenErr = st.Err()
					e := gen.Build(rel)
					gen.GivenErr = nil
					hs = append(hs, handlerErr{"relayed-downstream-status", e, rel})
					res.Desc.Tree += "relay of a downstream status carrying " + down.Expr() + " ; "
				}
			}
		}
	}
	for _, h := range hs {
		cl.Set(h.id, h.err)
	}
	refs := append([]error{}, gen.Sentinels...)
	for _, h := range hs {
		if h.err != nil {
			refs = append(refs, h.err)
		}
	}
	nclients := 1 + t.Draw(8)
	nrpc := 2 + t.Draw(11)
	assign := make([]int, nrpc)
	for i := range assign {
		assign[i] = t.Draw(len(hs))
	}
	// fault: for some RPCs the caller's context ends right after the
	// transport has delivered the reply, before the client interceptor
	// processes it; the handler's error must be delivered all the same
	endCtx := make([]bool, nrpc)
	for i := range endCtx {
		endCtx[i] = t.Bool(1, 6)
		if endCtx[i] {
			res.Stats.Faults["context-ends-after-reply"]++
		}
	}
	tagged := make([]bool, nrpc)
	for i := range tagged {
		tagged[i] = t.Bool(1, 3)
	}
	type rpcResult struct {
		err, errNo error
	}
	results := make([]rpcResult, nrpc)
	var wg sync.WaitGroup
	next := make(chan int, nrpc)
	for i := 0; i < nrpc; i++ {
		next <- i
	}
	close(next)
	for c := 0; c < nclients; c++ {
		wg.Add(1)
		go func() {
			defer wg.Done()
			for i := range next {
				ctx, cancel := context.WithTimeout(context.Background(), 90*time.Second)
				req := &errgrpc.EchoRequest{Text: hs[assign[i]].id}
				cctx, ccancel := context.WithCancel(ctx)
				if i%3 == 1 {
					// the caller already has outgoing metadata (credentials, request ids)
					cctx = metadata.AppendToOutgoingContext(cctx, "x-request-id", fmt.Sprint("rq", i))
				}
				if tagged[i] {
					// the caller's context carries log tags (a relay calling
					// downstream with its request context)
					cctx = logtags.AddTag(cctx, "caller", "TKUctxQ")
				}
				if endCtx[i] {
					cctx = context.WithValue(cctx, grpcsim.EndContextAfterReply, func() { ccancel() })
				}
				_, results[i].err = cl.Client.Echo(cctx, req)
				_, results[i].errNo = cl.ClientNo.Echo(ctx, req)
				ccancel()
				cancel()
			}
		}()
	}
	wg.Wait()
	transferred := false
	for i, r := range results {
		h := hs[assign[i]]
		where := fmt.Sprintf("rpc %d of %d (%d clients), handler error %q", i, nrpc, nclients, h.id)
		switch {
		case h.err == nil:
			if r.err != nil || r.errNo != nil {
				res.add(Violation{Prop: "C20", Oracle: "nil-stays-nil", Culprit: "interceptors", Expected: "nil", Observed: fmt.Sprint(r.err, " / ", r.errNo), Where: where})
			}
		case isStatus(h.err):
			want, _ := gogostatus.FromError(h.err)
			got, ok := gogostatus.FromError(r.err)
			if !ok || got.Code() != want.Code() || got.Message() != want.Message() {
				res.add(Violation{Prop: "C20", Oracle: "status-passes-through", Culprit: h.id, Expected: fmt.Sprint(want.Code(), " ", want.Message()), Observed: fmt.Sprint(r.err), Where: where})
			}
			// code, message and details are those the handler returned
			if a, b := statusProto(h.err), statusProto(r.err); a != b {
				res.add(Violation{Prop: "C20", Oracle: "status-passes-through-whole", Culprit: h.id, Expected: short(a), Observed: short(b), Where: where})
			}
			// "unchanged": exactly what a client without the interceptor receives
			if a, b := fmt.Sprintf("%T|%v|%v", r.errNo, r.errNo, statusProto(r.errNo)), fmt.Sprintf("%T|%v|%v", r.err, r.err, statusProto(r.err)); a != b {
				res.add(Violation{Prop: "C20", Oracle: "status-passes-through-unchanged", Culprit: h.id, Expected: a, Observed: b, Where: where})
			}
		default:
			if h.spec != nil && h.spec.Size() >= 2 {
				transferred = true
			}
			// the same error transferred directly
			data, p := obs.Encode(h.err)
			if p != "" {
				continue
			}
			direct, p2 := obs.Decode(data)
			if p2 != "" || direct == nil {
				continue
			}
			if r.err != nil && strings.Contains(r.err.Error(), grpcsim.ServerPanicPrefix) {
				res.add(Violation{Prop: "C20", Oracle: "server-interceptor-panics", Culprit: "code:" + specGrpcCode(h.spec).String(), Expected: "the handler's error delivered", Observed: short(r.err.Error()), Where: where})
				continue
			}
			if r.err == nil {
				res.add(Violation{Prop: "C20", Oracle: "error-delivered", Culprit: "interceptors", Expected: short(direct.Error()), Observed: "nil", Where: where})
				continue
			}
			dt, ct := obs.Tree(direct, true), obs.Tree(r.err, true)
			if kind, culprit, e, o := treeDiff(dt, ct); kind != "" {
				res.add(Violation{Prop: "C20", Oracle: "equals-direct-transfer:" + kind, Culprit: culprit, Expected: e, Observed: o, Where: where})
				continue
			}
			for j := range dt {
				if dt[j].GoType != ct[j].GoType || dt[j].Mark != ct[j].Mark || dt[j].Stack != ct[j].Stack || fmt.Sprint(dt[j].Safe) != fmt.Sprint(ct[j].Safe) {
					res.add(Violation{Prop: "C20", Oracle: "equals-direct-transfer:layer", Culprit: typeOfLayer(dt[j]), Expected: dt[j].GoType + " " + dt[j].Mark, Observed: ct[j].GoType + " " + ct[j].Mark, Where: where})
					break
				}
			}
			if a, b := obs.IsRow(direct, refs), obs.IsRow(r.err, refs); a != b {
				res.add(Violation{Prop: "C20", Oracle: "equals-direct-transfer:is", Culprit: "identity", Expected: a, Observed: b, Where: where})
			}
			da, ca := obs.Accessors(direct), obs.Accessors(r.err)
			for j := range da {
				if da[j].V != ca[j].V {
					res.add(Violation{Prop: "C20", Oracle: "equals-direct-transfer:accessor", Culprit: da[j].K, Expected: short(da[j].V), Observed: short(ca[j].V), Where: where})
				}
			}
			for _, verb := range []string{"%v", "%+v"} {
				if a, b := obs.Fmt(verb, direct), obs.Fmt(verb, r.err); a != b {
					res.add(Violation{Prop: "C20", Oracle: "equals-direct-transfer:" + verb, Culprit: firstDiffLine(a, b), Expected: short(a), Observed: short(b), Where: where})
				}
			}
			if a, _ := obs.Encode(direct); true {
				if b, _ := obs.Encode(r.err); string(a) != string(b) {
					res.add(Violation{Prop: "C20", Oracle: "equals-direct-transfer:wire", Culprit: wireDiffCulprit(a, b), Expected: fmt.Sprint(len(a), " bytes"), Observed: fmt.Sprint(len(b), " bytes, differs"), Where: where})
				}
			}
			// the code callers see: on the reconstituted error, and as a plain
			// gRPC client. The expectation comes from the spec (the outermost
			// WrapWithGrpcCode-like constructor on the single-cause chain),
			// not from the library's own accessor.
			wantCode := specGrpcCode(h.spec)
			if lib := extgrpc.GetGrpcCode(h.err); lib != wantCode {
				res.add(Violation{Prop: "C20", Oracle: "attached-code-at-handler", Culprit: "code:" + wantCode.String(), Expected: wantCode.String(), Observed: lib.String(), Where: where})
			}
			if got := extgrpc.GetGrpcCode(r.err); got != wantCode {
				res.add(Violation{Prop: "C20", Oracle: "status-code-on-delivered-error", Culprit: "code:" + wantCode.String(), Expected: wantCode.String(), Observed: got.String(), Where: where})
			}
			if wantCode == codes.OK {
				// gRPC cannot carry an error under the code OK: what a plain
				// client sees for an error with an explicitly attached OK is
				// not determined by the statement
				res.count("attached-OK-not-representable", 1)
			} else if got := grpcstatus.Code(r.errNo); got != wantCode {
				res.add(Violation{Prop: "C20", Oracle: "status-code-for-plain-clients", Culprit: "server-interceptor", Expected: wantCode.String(), Observed: got.String(), Where: where})
			}
		}
	}
	res.Stats.Deliveries = nrpc * 2
	res.Stats.Steps = nrpc * 2
	res.Stats.Faults["chunk"] = cl.L.Stats.Chunks
	res.count("rpcs", nrpc*2)
	res.count("clients", nclients)
	res.Desc.Notes = append(res.Desc.Notes, fmt.Sprintf("%d rpcs, %d client goroutines, fragmentation seed %d", nrpc, nclients, seed))
	res.LogDigest = fmt.Sprint(assign)
	res.Nontrivial = transferred
	res.Key = fmt.Sprintf("%s|%d|%v", shapes, nclients, assign)
	return res
}

// specGrpcCode is the code attached with WrapWithGrpcCode (or the
// grpc/status helpers built on it) to the outermost such layer of the
// single-cause chain; Unknown when there is none.
func specGrpcCode(n *gen.Node) codes.Code {
	for n != nil {
		switch n.K {
		case gen.WGrpcCode, gen.WStatusWrap, gen.LStatusErr, gen.LStatusErrf, gen.WStatusWrapf:
			return gen.Code(n.N[0])
		}
		if gen.Info(n.K).Arity != gen.Wrap || len(n.Kids) != 1 {
			return codes.Unknown
		}
		n = n.Kids[0]
	}
	return codes.Unknown
}

// statusProto renders the whole status message (code, message, details) of
// a status error.
func statusProto(err error) string {
	st, ok := gogostatus.FromError(err)
	if !ok {
		return "(not a status)"
	}
	return st.Proto().String()
}

func isStatus(err error) bool {
	_, ok := gogostatus.FromError(err)
	return ok
}
