package props

import (
	"encoding/hex"
	"fmt"
	"strings"
	"sync"

	"errsim/gen"
	"errsim/obs"
	"errsim/tape"
	"errsim/world"

	"github.com/cockroachdb/errors"
	"github.com/cockroachdb/redact"
)

// C18 — read-only use of a shared error is concurrency-safe and deterministic.
//
// "C18" is the cooperative deterministic layer (+ immutability monitor);
// "C18R" is the free-running layer meant to be executed by a -race build.
type c18 struct{}
type c18r struct{}

func init() { register(c18{}); register(c18r{}) }

func (c18) ID() string  { return "C18" }
func (c18r) ID() string { return "C18R" }

func (c18) Rule() string {
	return "layer 1+2 (deterministic): each run draws a tree (local or decoded), 16..32 goroutines each running one observer (%+v, redactable %+v, Error, encode+marshal, Is row, As, " +
		"GetAllSafeDetails, hints/details, Sentry report, redacted %v) on the shared value; exactly one goroutine runs at a time and switches happen only at yield points compiled into every " +
		"statement of the library (overlay), chosen from the tape by a random-walk or a PCT-style scheduler; oracle: every result equals the solo result; a reflective deep fingerprint of the " +
		"shared value and of the registries is compared after every scheduler step; layer 3 (race detector, free-running goroutines) is run by the same check with a -race build; " +
		"distinct = (constructor-shape signature x schedule hash); non-trivial = >= 2 layers and >= 1 preemption"
}

func (c18r) Rule() string {
	return "layer 3 of C18: free-running goroutines released from one barrier, each repeating its observer on the shared value, under the Go race detector"
}

type c18Op struct {
	name string
	fn   func() string
}

// c18Ops are the read-only observers of the property text.
func c18Ops(e error, fresh []error) []c18Op {
	// fresh: reference objects nobody has looked at before (an Is() that
	// memoises per reference is cold for them)
	refs := append(append([]error{e}, fresh...), gen.Sentinels...)
	anyRefs := append([]error{gen.HarnessSentinel2, nil}, refs...)
	return []c18Op{
		{"fmt %+v", func() string { return obs.Fmt("%+v", e) }},
		{"redact %+v", func() string { return obs.Red("%+v", e) }},
		{"Error()", func() string { return obs.S(func() string { return e.Error() }) }},
		{"EncodeError+Marshal", func() string {
			d, p := obs.Encode(e)
			return p + hex.EncodeToString(d)
		}},
		{"Is row", func() string { return obs.IsRow(e, refs) }},
		{"IsAny(shared list)", func() string {
			// one reference list (with a nil in it) used by every caller
			return obs.S(func() string { return fmt.Sprint(errors.IsAny(e, anyRefs...), len(anyRefs), anyRefs[1] == nil) })
		}},
		{"As", func() string {
			return obs.S(func() string {
				var a *gen.ULeafPtr
				var b *gen.ULeafReg
				var c interface{ Timeout() bool }
				return fmt.Sprint(errors.As(e, &a), errors.As(e, &b), errors.As(e, &c))
			})
		}},
		{"GetAllSafeDetails", func() string {
			all, p := obs.AllSafeDetails(e)
			return p + strings.Join(all, "\x1e")
		}},
		{"hints+details", func() string {
			return obs.S(func() string { return fmt.Sprintf("%q %q", errors.GetAllHints(e), errors.GetAllDetails(e)) })
		}},
		{"BuildSentryReport", func() string {
			ev, ex, p := obs.Report(e)
			return p + ev + fmt.Sprint(len(ex), ex["error types"])
		}},
		{"BuildSentryReport+fill", func() string {
			// what ReportError (and any caller, as documented) does with the
			// event it got: the event is the caller's own object
			return obs.S(func() string {
				ev, ex := errors.BuildSentryReport(e)
				if ev == nil {
					return "null"
				}
				for k, v := range ex {
					ev.Extra[k] = v
				}
				ev.Tags["report_type"] = "error"
				ev.ServerName = "<redacted>"
				return fmt.Sprint(len(ev.Extra), len(ev.Tags), ev.Tags["report_type"], ev.Extra["error types"])
			})
		}},
		{"redacted %v", func() string { return obs.S(func() string { return string(redact.Sprintf("%v", e).Redact()) }) }},
		{"accessors", func() string { return fmt.Sprint(obs.Accessors(e)) }},
	}
}

// c18Fresh builds reference errors that are equal (by mark) to the shared
// value and to one of its causes but are distinct, never-observed objects.
func c18Fresh(spec *gen.Node) []error {
	world.Full().Install()
	r := gen.Build(spec)
	out := []error{r}
	if c := errors.UnwrapAll(r); c != nil {
		out = append(out, c)
	}
	return out
}

// c18Values builds the shared value and an identical twin (same spec, same
// state: local or decoded) for the solo results.
func c18Values(t *tape.Tape, spec *gen.Node) (shared, twin error, state string) {
	world.Full().Install()
	shared, twin = gen.Build(spec), gen.Build(spec)
	state = "local"
	if t.Bool(1, 2) {
		d1, p1 := obs.Encode(twin)
		if p1 == "" {
			// both decoded from the twin's bytes: the shared original stays untouched
			a, pa := obs.Decode(d1)
			b, pb := obs.Decode(d1)
			if pa == "" && pb == "" && a != nil && b != nil {
				shared, twin, state = a, b, "decoded"
			}
		}
	}
	return
}

func (c18) Run(t *tape.Tape, tier Tier) *Result {
	res := &Result{}
	c18Cooperative(t, tier, res)
	return res
}

// Run of the free-running layer: meaningful only under -race, but the
// result-equality oracle is checked in any build.
func (c18r) Run(t *tape.Tape, tier Tier) *Result {
	res := &Result{}
	cfg := gen.Config{Alpha: gen.Regular, Swarm: true, MaxDepth: 5, MaxNodes: 10, Boost: gen.GMulti | gen.GAnnot, BoostFactor: 2, Alias: true}
	if t.Bool(1, 4) {
		cfg.Alpha = gen.Hostile // e.g. payloads that fail to marshal
	}
	g := gen.New(t, cfg)
	spec := g.Tree()
	shared, twin, state := c18Values(t, spec)
	res.Desc.Tree = spec.Expr()
	res.Kinds = kindsOf(spec)
	ops := c18Ops(shared, c18Fresh(spec))
	// The solo results are computed AFTER the concurrent phase (on the twin):
	// process-wide lazily initialised state must still be cold when the
	// goroutines start.
	solo := make([]string, len(ops))
	nG := 16 + t.Draw(9)
	reps := 3
	opOf := make([]int, nG)
	for i := range opOf {
		opOf[i] = t.Draw(len(ops))
	}
	results := make([][]string, nG)
	var wg sync.WaitGroup
	start := make(chan struct{})
	for i := 0; i < nG; i++ {
		i := i
		wg.Add(1)
		go func() {
			defer wg.Done()
			<-start
			for r := 0; r < reps; r++ {
				results[i] = append(results[i], ops[opOf[i]].fn())
			}
		}()
	}
	close(start)
	wg.Wait()
	for i, op := range c18Ops(twin, c18Fresh(spec)) {
		solo[i] = op.fn()
	}
	for i := range results {
		for _, r := range results[i] {
			if r != solo[opOf[i]] {
				res.add(Violation{Prop: "C18", Oracle: "result-differs-from-solo(free-running)", Culprit: ops[opOf[i]].name, Expected: short(solo[opOf[i]]), Observed: short(r),
					Where: fmt.Sprintf("%s value, goroutine %d of %d", state, i, nG)})
				break
			}
		}
	}
	res.count("goroutines", nG)
	res.count("state:"+state, 1)
	res.Nontrivial = spec.Size() >= 2
	res.Key = spec.Shape() + "|" + fmt.Sprint(opOf)
	res.LogDigest = fmt.Sprint(len(solo))
	return res
}
