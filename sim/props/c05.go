package props

import (
	"fmt"
	"sort"
	"strings"

	"errsim/gen"
	"errsim/obs"
	"errsim/tape"
	"errsim/world"

	"github.com/cockroachdb/errors"
	"github.com/cockroachdb/errors/errbase"
	"github.com/cockroachdb/errors/errorspb"
	"github.com/gogo/protobuf/types"
)

// C05 — decoding is total: no panic, always an error; the result can be
// formatted, redacted, inspected, reported and re-encoded without panicking.
type c05 struct{}

func init() { register(c05{}) }

func (c05) ID() string { return "C05" }

func (c05) Rule() string {
	return "part 1 (exhaustive fault enumeration, one run per case): for every type key with a registered decoder (read from the live registries) x payload fault " +
		"{absent, unknown Any URL, right URL + garbage, empty message of right type, right type with repeated fields cut to 0/1, every other payload message type} x " +
		"details {none, one fewer, as sent, extra} x message type {0,1,7} x multi-cause children {0,2} x carrier position {root, under known wrapper, under unknown wrapper, " +
		"inside barrier payload, inside secondary payload, multi-cause branch} x form {natural, leaf/wrapper swapped}; " +
		"part 2 (seeded): valid generated messages with a sequence of 1..3 wire faults at drawn positions (payload/details/message-type/hostile strings/garbled reportable strings/family swap) and " +
		"protobuf-level byte fuzz, kept only if they unmarshal and are structurally complete; " +
		"distinct = distinct (family x payload fault x details x msgtype x children x carrier x form) cases plus distinct (shape x fault multiset) seeded runs; non-trivial = at least one fault applied"
}

var msgTypes = []int32{0, 1, 7}

const (
	pfAbsent = iota
	pfUnknownURL
	pfGarbage
	pfEmpty
	pfShort0
	pfShort1
	pfOtherBase
)

const nCarriers = 6

var carrierNames = []string{"root", "under-known-wrapper", "under-unknown-wrapper", "in-barrier-payload", "in-secondary-payload", "multi-cause-branch"}

// decoderKeys lists every key with a registered decoder of any kind.
func decoderKeys() []string {
	set := map[string]bool{}
	for k := range world.Base.LeafDecoders {
		set[string(k)] = true
	}
	for k := range world.Base.Decoders {
		set[string(k)] = true
	}
	for k := range world.Base.MultiCauseDecoders {
		set[string(k)] = true
	}
	var out []string
	for k := range set {
		out = append(out, k)
	}
	sort.Strings(out)
	return out
}

func (c05) radices() []int {
	return []int{len(decoderKeys()), pfOtherBase + len(world.PayloadCatalog()), 4, len(msgTypes), 2, nCarriers, 2}
}

// EnumSize is the number of enumerated cases.
func (p c05) EnumSize(tier Tier) int {
	n := 1
	for _, r := range p.radices() {
		n *= r
	}
	return n
}

// TapeFor returns the tape selecting enumerated case i.
func (p c05) TapeFor(i int, tier Tier) []uint32 {
	rad := p.radices()
	vals := make([]uint32, 0, len(rad)+1)
	vals = append(vals, 1) // mode: enumerated
	for _, r := range rad {
		vals = append(vals, uint32(i%r))
		i /= r
	}
	return vals
}

func wrapNode(cause errorspb.EncodedError, family, msg string, details []string, payload *types.Any, mt int32) errorspb.EncodedError {
	return errorspb.EncodedError{Error: &errorspb.EncodedError_Wrapper{Wrapper: &errorspb.EncodedWrapper{
		Cause: cause, Message: msg, MessageType: errorspb.MessageType(mt),
		Details: errorspb.EncodedErrorDetails{OriginalTypeName: family, ErrorTypeMark: errorspb.ErrorTypeMark{FamilyName: family},
			ReportablePayload: details, FullDetails: payload},
	}}}
}

func leafNode(family, msg string, details []string, payload *types.Any, causes []*errorspb.EncodedError) errorspb.EncodedError {
	return errorspb.EncodedError{Error: &errorspb.EncodedError_Leaf{Leaf: &errorspb.EncodedErrorLeaf{
		Message: msg, MultierrorCauses: causes,
		Details: errorspb.EncodedErrorDetails{OriginalTypeName: family, ErrorTypeMark: errorspb.ErrorTypeMark{FamilyName: family},
			ReportablePayload: details, FullDetails: payload},
	}}}
}

func anyOf(e *errorspb.EncodedError) *types.Any {
	a, err := types.MarshalAny(e)
	if err != nil {
		panic(err)
	}
	return a
}

const (
	famPrefix    = "github.com/cockroachdb/errors/errutil/*errutil.withPrefix"
	famBarrier   = "github.com/cockroachdb/errors/barriers/*barriers.barrierErr"
	famSecondary = "github.com/cockroachdb/errors/secondary/*secondary.withSecondaryError"
	famJoin      = "github.com/cockroachdb/errors/join/*join.joinError"
)

// carry places a node at a carrier position.
func carry(node errorspb.EncodedError, carrier int) errorspb.EncodedError {
	switch carrier {
	case 1:
		ex := world.Exemplars()[famPrefix]
		return wrapNode(node, famPrefix, "ctx", ex.Details.ReportablePayload, ex.Details.FullDetails, 0)
	case 2:
		return wrapNode(node, "example.com/unknown/*pkg.wrapper", "unk", []string{"d"}, nil, 0)
	case 3:
		return leafNode(famBarrier, "masked", []string{"d"}, anyOf(&node), nil)
	case 4:
		return wrapNode(world.SimpleLeaf("primary"), famSecondary, "", nil, anyOf(&node), 0)
	case 5:
		other := world.SimpleLeaf("other branch")
		return leafNode(famJoin, "", nil, nil, []*errorspb.EncodedError{&other, &node})
	}
	return node
}

// payloadFault computes the faulted payload. ok=false: not applicable for this key.
func payloadFault(idx int, ex *world.Exemplar) (a *types.Any, class string, ok bool) {
	var right *types.Any
	if ex != nil {
		right = ex.Details.FullDetails
	}
	switch idx {
	case pfAbsent:
		return nil, "absent", true
	case pfUnknownURL:
		return &types.Any{TypeUrl: "type.googleapis.com/unknown.pkg.Message", Value: []byte{0x0a, 0x03, 'a', 'b', 'c'}}, "unknown-url", true
	case pfGarbage:
		if right == nil {
			return nil, "", false
		}
		return &types.Any{TypeUrl: right.TypeUrl, Value: []byte{0xff, 0xff, 0xff, 0xff, 0x0f, 0x01}}, "garbage", true
	case pfEmpty:
		if right == nil {
			return nil, "", false
		}
		return &types.Any{TypeUrl: right.TypeUrl, Value: nil}, "empty", true
	case pfShort0, pfShort1:
		s := world.ShortPayload(right, idx-pfShort0)
		if s == nil {
			return nil, "", false
		}
		return s, "short", true
	}
	c := world.PayloadCatalog()[idx-pfOtherBase]
	return c, "other(" + c.TypeUrl[strings.LastIndexByte(c.TypeUrl, '.')+1:] + ")", true
}

// exercise uses a decoded error in every way the property lists and
// returns the first operation that panicked.
func exercise(err error) (op, panicMsg string) {
	try := func(name string, f func()) bool {
		if p := obs.S(func() string { f(); return "" }); p != "" {
			op, panicMsg = name, p
			return false
		}
		return true
	}
	// fmt (and redact) recover panics raised inside Format/Error methods
	// and print them as "%!v(PANIC=Format method: ...)": that is a panic too.
	swallowed := func(name, out string) bool {
		if i := strings.Index(out, "(PANIC="); i >= 0 {
			end := i + 160
			if end > len(out) {
				end = len(out)
			}
			op, panicMsg = name, obs.PanicPrefix+"recovered by fmt: "+out[i:end]+")@"+swallowedSite(out[i:end])
			return true
		}
		return false
	}
	for _, verb := range []string{"%v", "%+v", "%s", "%q", "%x", "%X", "%#v", "%d"} {
		verb := verb
		var out string
		if !try("fmt"+verb, func() { out = fmt.Sprintf(verb, err) }) || swallowed("fmt"+verb, out) {
			return
		}
		if !try("fmt-formattable"+verb, func() { out = fmt.Sprintf(verb, errors.Formattable(err)) }) || swallowed("fmt-formattable"+verb, out) {
			return
		}
	}
	if !try("Error()", func() { _ = err.Error() }) {
		return
	}
	for _, verb := range []string{"%v", "%+v", "%s", "%q", "%x"} {
		verb := verb
		p := obs.Red(verb, err)
		if obs.IsPanic(p) {
			return "redact" + verb, p
		}
		if swallowed("redact"+verb, p) {
			return
		}
		if r := obs.Redacted(p); obs.IsPanic(r) {
			return "redact" + verb + ".Redact()", r
		}
	}
	for _, kv := range obs.Accessors(err) {
		if obs.IsPanic(kv.V) {
			return kv.K, kv.V
		}
	}
	if _, p := obs.AllSafeDetails(err); p != "" {
		return "GetAllSafeDetails", p
	}
	for _, n := range obs.Tree(err, true) {
		if obs.IsPanic(n.Text) {
			return "Error()@" + n.Path, n.Text
		}
		if obs.IsPanic(n.Stack) {
			return "GetReportableStackTrace", n.Stack
		}
	}
	if _, _, p := obs.Report(err); p != "" {
		return "BuildSentryReport", p
	}
	if _, p := obs.Encode(err); p != "" {
		return "EncodeError", p
	}
	row := obs.IsRow(err, gen.Sentinels[:6])
	if strings.ContainsRune(row, 'P') {
		return "Is", "PANIC(in errors.Is)"
	}
	if !try("As", func() { var t *gen.ULeafPtr; _ = errors.As(err, &t) }) {
		return
	}
	if !try("UnwrapAll", func() { _ = errors.UnwrapAll(err) }) {
		return
	}
	return "", ""
}

func (p c05) Run(t *tape.Tape, tier Tier) *Result {
	if t.Draw(8) == 1 {
		return p.runEnumerated(t)
	}
	return p.runSeeded(t, tier)
}

func (c05) runEnumerated(t *tape.Tape) *Result {
	res := &Result{}
	res.Stats.Faults = map[string]int{}
	keys := decoderKeys()
	key := keys[t.Draw(len(keys))]
	pfIdx := t.Draw(pfOtherBase + len(world.PayloadCatalog()))
	df := t.Draw(4)
	mt := msgTypes[t.Draw(len(msgTypes))]
	children := t.Draw(2) * 2
	carrier := t.Draw(nCarriers)
	swapped := t.Draw(2) == 1
	ex := world.Exemplars()[key]
	_, isLeafKey := world.Base.LeafDecoders[errbase.TypeKey(key)]
	_, isMultiKey := world.Base.MultiCauseDecoders[errbase.TypeKey(key)]
	wrapperForm := !(isLeafKey || isMultiKey)
	if swapped {
		wrapperForm = !wrapperForm
	}
	payload, class, ok := payloadFault(pfIdx, ex)
	if !ok || (wrapperForm && children != 0) {
		res.Discarded = true
		return res
	}
	var details []string
	if ex != nil {
		details = append(details, ex.Details.ReportablePayload...)
	}
	dclass := "as-sent"
	switch df {
	case 0:
		details, dclass = nil, "none"
	case 1:
		if len(details) == 0 {
			res.Discarded = true // same as "none"
			return res
		}
		details, dclass = details[:len(details)-1], "fewer"
	case 3:
		details, dclass = append(details, "extra1", "extra2"), "extra"
	}
	msg := "msg"
	if ex != nil {
		msg = ex.Msg
	}
	var node errorspb.EncodedError
	if wrapperForm {
		node = wrapNode(world.SimpleLeaf("cause"), key, msg, details, payload, mt)
	} else {
		var causes []*errorspb.EncodedError
		for i := 0; i < children; i++ {
			c := world.SimpleLeaf(fmt.Sprintf("branch%d", i))
			causes = append(causes, &c)
		}
		node = leafNode(key, msg, details, payload, causes)
	}
	enc := carry(node, carrier)
	desc := fmt.Sprintf("key=%s form=%s payload=%s details=%s msgtype=%d children=%d carrier=%s",
		key, map[bool]string{true: "wrapper", false: "leaf"}[wrapperForm], class, dclass, mt, children, carrierNames[carrier])
	res.Desc.Tree = desc
	res.Desc.Faults = []string{"payload=" + class, "details=" + dclass, fmt.Sprintf("msgtype=%d", mt)}
	res.count("enumerated", 1)
	res.Stats.Faults["payload="+class]++
	res.Stats.Faults["details="+dclass]++
	res.Stats.Faults[fmt.Sprintf("msgtype=%d", mt)]++
	res.Stats.Faults["carrier="+carrierNames[carrier]]++
	deliverAndExercise(t, res, &enc, world.ShortKey(key), "payload="+coarse(class), desc)
	res.Key = "enum|" + desc
	res.Nontrivial = true
	return res
}

// swallowedSite classifies a panic that fmt recovered (no stack is
// available any more): the text of the runtime error is the locator.
func swallowedSite(msg string) string {
	switch {
	case strings.Contains(msg, "index out of range"):
		return "fmt-recovered:index-out-of-range"
	case strings.Contains(msg, "nil pointer"):
		return "fmt-recovered:nil-pointer"
	}
	return "fmt-recovered:other"
}

// coarse folds "other(<type>)" payload classes into one signature class.
func coarse(class string) string {
	if strings.HasPrefix(class, "other(") {
		return "other-type"
	}
	return class
}

// deliverAndExercise sends one encoded error over the simulated transport
// to a knowing process and checks totality there.
// c05Receiver, if set, is the profile of the receiving process of the next
// delivery (consumed by deliverAndExercise).
var c05Receiver *world.Profile

func deliverAndExercise(t *tape.Tape, res *Result, enc *errorspb.EncodedError, culprit, config, where string) {
	sim := world.NewSim(t)
	sim.AddProcess(world.Full())
	if c05Receiver != nil {
		sim.AddProcess(c05Receiver)
		c05Receiver = nil
	} else {
		sim.AddProcess(world.Full())
	}
	sim.DupNum = 0
	sim.MaxDelay = 1
	data, err := enc.Marshal()
	if err != nil {
		res.Discarded = true
		return
	}
	if !world.WalkWire(enc, false, nil) {
		res.Discarded = true
		res.count("discarded-incomplete", 1)
		return
	}
	sim.OnDeliver = func(d *world.Delivery) {
		if d.Panic != "" {
			res.add(Violation{Prop: "C05", Oracle: "decode", Culprit: obs.PanicSite(d.Panic), Expected: "a non-nil error, no panic", Observed: short(d.Panic), Where: where})
			return
		}
		if d.Err == nil {
			res.add(Violation{Prop: "C05", Oracle: "decode-nil", Culprit: culprit, Config: config, Expected: "a non-nil error", Observed: "nil", Where: where})
			return
		}
		if op, p := exercise(d.Err); op != "" {
			res.add(Violation{Prop: "C05", Oracle: "use:" + op, Culprit: obs.PanicSite(p), Expected: "no panic", Observed: short(p), Where: where})
		}
	}
	sim.Send(0, 1, []int{0}, []int{1}, data)
	sim.Run()
	st := sim.Stats
	for k, v := range res.Stats.Faults {
		st.Faults[k] += v
	}
	res.Stats = st
	res.LogDigest = sim.LogDigest()
}

// ---- seeded fault sequences over valid generated messages -------------------

var hostileWire = []string{"", "‹", "›", "‹x›", "a\nb", "\n", "\x00", "\xff\xfe", "%!v(", "%s%d", "‹\n›", "?", ": ", "x: y: z"}

var garbleBits = []string{"[", "]", "[..", "(", ")", "{", ".", "/", ":", "\n", "\n\t", "\t", " ", "%", "\x00", "‹", "…", ".go:", ":-1", ":99999999999999999999"}

// garble applies 1..3 small edits to s.
func garble(t *tape.Tape, s string) string {
	for n := 1 + t.Draw(3); n > 0 && len(s) > 0; n-- {
		pos := t.Draw(len(s) + 1)
		switch t.Draw(4) {
		case 0:
			s = s[:pos]
		case 1:
			s = s[:pos] + garbleBits[t.Draw(len(garbleBits))] + s[pos:]
		case 2:
			if pos < len(s) {
				s = s[:pos] + s[pos+1:]
			}
		default:
			// cut a piece out of the middle
			end := pos + t.Draw(40)
			if end > len(s) {
				end = len(s)
			}
			s = s[:pos] + s[end:]
		}
	}
	return strings.ToValidUTF8(s, "?")
}

func (c05) runSeeded(t *tape.Tape, tier Tier) *Result {
	res := &Result{}
	res.Stats.Faults = map[string]int{}
	cfg := gen.Config{Alpha: gen.Regular, Swarm: true, MaxDepth: 5, MaxNodes: 12}
	if tier == Thorough {
		cfg.MaxDepth, cfg.MaxNodes = 7, 20
	}
	if t.Bool(1, 3) {
		cfg.Alpha = gen.Hostile
	}
	g := gen.New(t, cfg)
	spec := g.Tree()
	world.Full().Install()
	e0 := gen.Build(spec)
	data, p := obs.Encode(e0)
	res.Desc.Tree = spec.Expr()
	res.Kinds = kindsOf(spec)
	if p != "" {
		// hostile strings (invalid UTF-8) make gogo refuse to marshal: not a decode problem
		res.Discarded = true
		return res
	}
	enc, err := world.ParseWire(data)
	if err != nil {
		res.Discarded = true
		return res
	}
	var nodes []*world.WireNode
	world.WalkWire(enc, false, func(w *world.WireNode) { nodes = append(nodes, w) })
	keys := decoderKeys()
	nf := 1 + t.Draw(3)
	culprit, config := "", ""
	for i := 0; i < nf; i++ {
		w := nodes[t.Draw(len(nodes))]
		d := w.Details()
		var f string
		switch t.Draw(8) {
		case 7:
			// a reportable string (often a printed stack trace that the
			// receiver parses) arrives garbled: truncated, or with a few
			// characters inserted or removed
			if len(d.ReportablePayload) > 0 {
				k := t.Draw(len(d.ReportablePayload))
				d.ReportablePayload[k] = garble(t, d.ReportablePayload[k])
			}
			f = "string=garbled(reportable)"
		case 0:
			idx := t.Draw(pfOtherBase + len(world.PayloadCatalog()))
			a, class, ok := payloadFault(idx, &world.Exemplar{Details: *d})
			if !ok {
				a, class = nil, "absent"
			}
			d.FullDetails = a
			f = "payload=" + coarse(class)
		case 1:
			switch t.Draw(3) {
			case 0:
				d.ReportablePayload = nil
				f = "details=none"
			case 1:
				if len(d.ReportablePayload) > 0 {
					d.ReportablePayload = d.ReportablePayload[:len(d.ReportablePayload)-1]
				}
				f = "details=fewer"
			default:
				d.ReportablePayload = append(d.ReportablePayload, hostileWire[t.Draw(len(hostileWire))])
				f = "details=extra"
			}
		case 2:
			if w.Wrapper != nil {
				w.Wrapper.MessageType = errorspb.MessageType(msgTypes[t.Draw(len(msgTypes))])
			}
			f = "msgtype"
		case 3:
			s := hostileWire[t.Draw(len(hostileWire))]
			if w.Wrapper != nil {
				w.Wrapper.Message = s
			} else {
				w.Leaf.Message = s
			}
			f = "string=hostile(message)"
		case 4:
			if len(d.ReportablePayload) > 0 {
				d.ReportablePayload[t.Draw(len(d.ReportablePayload))] = hostileWire[t.Draw(len(hostileWire))]
			}
			f = "string=hostile(reportable)"
		case 5:
			d.OriginalTypeName = hostileWire[t.Draw(len(hostileWire))]
			f = "string=hostile(typename)"
		default:
			d.ErrorTypeMark.FamilyName = keys[t.Draw(len(keys))]
			f = "family-swap"
		}
		if i == 0 {
			culprit = world.ShortKey(w.Family())
			config = f
		}
		res.Stats.Faults[f]++
		res.Desc.Faults = append(res.Desc.Faults, f+"@"+w.Path+"("+world.ShortKey(w.Family())+")")
	}
	// protobuf-level byte fuzz of the whole message
	fuzzed := false
	if t.Bool(1, 4) {
		raw, merr := enc.Marshal()
		if merr == nil && len(raw) > 4 {
			for k := 0; k < 1+t.Draw(3); k++ {
				pos := t.Draw(len(raw))
				switch t.Draw(3) {
				case 0:
					raw[pos] ^= 1 << uint(t.Draw(8))
				case 1:
					raw = append(raw[:pos], raw[pos+1:]...)
				default:
					raw = append(raw[:pos], append([]byte{raw[pos]}, raw[pos:]...)...)
				}
				if len(raw) < 2 {
					break
				}
			}
			var fe errorspb.EncodedError
			if uerr := fe.Unmarshal(raw); uerr == nil {
				enc = &fe
				fuzzed = true
				res.Stats.Faults["bytes=fuzz"]++
				res.Desc.Faults = append(res.Desc.Faults, "bytes=fuzz")
			} else {
				res.count("fuzz-rejected-unmarshal", 1)
			}
		}
	}
	// a receiver that has unregistered one of the message's decoders through
	// the public API (Register*Decoder(key, nil)), as a program does that
	// wants a type kept opaque
	if t.Bool(1, 12) {
		fams := familiesOf(data)
		if len(fams) > 0 {
			key := errors.TypeKey(fams[t.Draw(len(fams))])
			world.Full().Install()
			errors.RegisterLeafDecoder(key, nil)
			errors.RegisterWrapperDecoder(key, nil)
			errors.RegisterMultiCauseDecoder(key, nil)
			c05Receiver = &world.Profile{Name: "unregistered[" + world.ShortKey(string(key)) + "]", Reg: errbase.VerifSnapshotRegistries(), Unknown: map[string]bool{string(key): true}}
			world.Full().Install()
			f := "decoder=unregistered-through-api"
			res.Stats.Faults[f]++
			res.Desc.Faults = append(res.Desc.Faults, f+"("+world.ShortKey(string(key))+")")
		}
	}
	sort.Strings(res.Desc.Faults)
	deliverAndExercise(t, res, enc, culprit, config, strings.Join(res.Desc.Faults, ","))
	res.count("seeded", 1)
	res.Nontrivial = !res.Discarded
	res.Key = fmt.Sprintf("seeded|%s|%v|%v", spec.Shape(), res.Desc.Faults, fuzzed)
	return res
}
