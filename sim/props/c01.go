package props

import (
	"bytes"
	"fmt"
	"strings"

	"errsim/gen"
	"errsim/obs"
	"errsim/tape"
	"errsim/world"

	"github.com/cockroachdb/errors"
)

// C01 — error text and cause-tree structure survive network transfer
// between processes that know the same types; re-encoding is a fixpoint
// from the second wire message on.
type c01 struct{}

func init() { register(c01{}) }

func (c01) ID() string { return "C01" }

func (c01) Rule() string {
	return "each run: seeded error tree over all constructors (regular strings, swarm-selected constructor groups), " +
		"cluster of 2..6 knowing processes, 1..2 routes of 1..8 hops with duplication/delay; the origin and relays may log/report/inspect the error before sending it (1/3), " +
		"a relay may wrap what it received in 1..3 generated layers and send that on as a new flow (1/6), an errno may arrive as sent by a peer of another architecture (1/4); " +
		"distinct = (constructor-shape signature x route lengths x duplicate count); " +
		"non-trivial = tree has >= 2 layers and some route has >= 1 hop (always true for routes)"
}

func (c01) Run(t *tape.Tape, tier Tier) *Result {
	res := &Result{}
	cfg := gen.Config{Alpha: gen.Regular, Swarm: true, MaxDepth: 6, MaxNodes: 16}
	maxHops := 5
	if tier == Thorough {
		cfg.MaxDepth, cfg.MaxNodes = 7, 24
		maxHops = 8
	}
	g := gen.New(t, cfg)
	spec := g.Tree()
	special := ""
	rate := 2000
	if tier == Thorough {
		rate = 500
	}
	if t.Draw(rate) == 7 {
		// rarely: a very deep chain (depth guards, recursion limits); costly,
		// since every layer's Error() renders the whole chain below it
		spec = g.DeepChain(250 + t.Draw(60))
		special = "deep"
	}
	if special == "deep" {
		return runDeep(t, spec)
	}
	sim := world.NewSim(t)
	nproc := 2 + t.Draw(5)
	for i := 0; i < nproc; i++ {
		sim.AddProcess(world.Full())
	}
	sim.At(0)
	e0 := gen.Build(spec)
	want := obs.Tree(e0, false)
	// the origin, and relays, log / report / inspect the error before they
	// send it: none of that may change what travels
	sim.ExerciseDen = 3
	if t.Bool(1, 3) {
		obs.Exercise(e0)
		sim.Stats.Faults["observed-before-forwarding"]++
	}
	m1, p := obs.Encode(e0)
	res.Desc.Tree = spec.Expr()
	res.Desc.Cluster = clusterDesc(sim)
	res.Kinds = kindsOf(spec)
	// an errno may come from a peer of another architecture: with
	// probability 1/4 the first message is rewritten accordingly; text and
	// shape must survive all the same (the receiver keeps an OpaqueErrno)
	if spec.HasKind(func(k gen.Kind) bool { return k == gen.LErrno }) && t.Bool(1, 4) && p == "" {
		if d2, n := world.ForeignArchErrno(m1); n > 0 {
			m1 = d2
			sim.Stats.Faults["errno-foreign-arch"] += n
			res.Desc.Faults = append(res.Desc.Faults, "errno-foreign-arch")
		}
	}
	if p != "" {
		res.add(Violation{Prop: "C01", Oracle: "encode-at-origin", Culprit: typeOfLayer(want[0]), Expected: "no panic", Observed: p})
		return res
	}
	nroutes := 1 + t.Draw(2)
	lens := ""
	for r := 0; r < nroutes; r++ {
		route := drawRoute(t, nproc, maxHops)
		if r == 1 {
			sim.Stats.Fanouts++
		}
		lens += fmt.Sprint(len(route), ",")
		res.Desc.Routes = append(res.Desc.Routes, routeString(append([]int{0}, route...)))
		sim.At(0)
		sim.Send(0, 1, []int{0}, route, m1)
	}
	m1eqm2, m1nem2 := 0, 0
	// what each flow carries; a relay that wraps what it received before
	// passing it on starts a new flow with the wrapped value as its origin
	wants := map[int][]obs.Node{0: want, 1: want}
	nextFlow := 2
	sim.OnDeliver = func(d *world.Delivery) {
		where := fmt.Sprintf("flow %d hop %d at process %d via %s", d.Msg.Flow, d.Msg.Hop, d.Proc.ID, routeString(d.Msg.Path))
		want := wants[d.Msg.Flow]
		if d.Panic != "" {
			res.add(Violation{Prop: "C01", Oracle: "decode", Culprit: typeOfLayer(want[0]), Expected: "decoded error", Observed: d.Panic, Where: where})
			return
		}
		if d.Forward && nextFlow < 5 && t.Bool(1, 6) {
			// the relay annotates the error: decoded layers inside, live ones outside
			over := g.Over(1 + t.Draw(3))
			gen.GivenErr = d.Err
			e2 := gen.Build(over)
			gen.GivenErr = nil
			if data, p := obs.Encode(e2); p == "" {
				wants[nextFlow] = obs.Tree(e2, false)
				sim.Stats.Faults["rewrapped-at-relay"]++
				res.Desc.Tree += fmt.Sprintf(" ; relay %d wraps flow %d as flow %d: %s", d.Proc.ID, d.Msg.Flow, nextFlow, over.Expr())
				sim.Send(nextFlow, 1, d.Msg.Path[:len(d.Msg.Path)-1], append([]int{d.Proc.ID}, d.Msg.Route...), data)
				// (delivered first to the relay itself: a loop-back hop)
				nextFlow++
			} else {
				res.add(Violation{Prop: "C01", Oracle: "encode-at-relay", Culprit: obs.PanicSite(p), Expected: "no panic", Observed: short(p), Where: where})
			}
		}
		got := obs.Tree(d.Err, false)
		sim.Logf("obs %s", obs.Shape(got))
		if kind, culprit, e, o := treeDiff(want, got); kind != "" {
			res.add(Violation{Prop: "C01", Oracle: kind + "-after-hop", Culprit: culprit, Expected: e, Observed: o, Where: where})
		}
		if d.RePanic != "" {
			res.add(Violation{Prop: "C01", Oracle: "re-encode", Culprit: typeOfLayer(want[0]), Expected: "no panic", Observed: d.RePanic, Where: where})
			return
		}
		if d.Msg.Hop >= 2 {
			if !bytes.Equal(d.ReData, d.Msg.Data) {
				culprit := wireDiffCulprit(d.Msg.Data, d.ReData)
				res.add(Violation{Prop: "C01", Oracle: "wire-drift", Culprit: culprit,
					Expected: fmt.Sprintf("m%d == m%d (%d bytes)", d.Msg.Hop+1, d.Msg.Hop, len(d.Msg.Data)),
					Observed: fmt.Sprintf("%d bytes, differs", len(d.ReData)), Where: where})
			}
		} else if bytes.Equal(d.ReData, d.Msg.Data) {
			m1eqm2++
		} else {
			m1nem2++
			// the first re-encoding may differ from what the origin sent only
			// in the details (and payload) of barrier and secondary-error
			// layers, which embed a rendering of their hidden error
			if culprit, e, o := firstHopDrift(d.Msg.Data, d.ReData); culprit != "" {
				res.add(Violation{Prop: "C01", Oracle: "wire-drift-at-first-hop", Culprit: culprit, Expected: e, Observed: o, Where: where})
			}
		}
	}
	sim.Run()
	res.Stats = sim.Stats
	res.count("m1==m2", m1eqm2)
	res.count("m1!=m2", m1nem2)
	res.LogDigest = sim.LogDigest()
	res.Nontrivial = len(want) >= 2 && sim.Stats.Deliveries >= 1
	res.Key = fmt.Sprintf("%s|%s|d%d", spec.Shape(), lens, sim.Stats.Duplicates)
	return res
}

// firstHopDrift compares the message a process received with its re-encoding
// of the decoded error, node by node: family, type name, message, message
// type and payload must be equal everywhere, the reportable details
// everywhere except at barrier and secondary-error layers.
func firstHopDrift(in, out []byte) (culprit, exp, obsd string) {
	ea, err1 := world.ParseWire(in)
	eb, err2 := world.ParseWire(out)
	if err1 != nil || err2 != nil {
		return "", "", ""
	}
	var na, nb []*world.WireNode
	world.WalkWire(ea, false, func(w *world.WireNode) { na = append(na, w) })
	world.WalkWire(eb, false, func(w *world.WireNode) { nb = append(nb, w) })
	if len(na) != len(nb) {
		return "structure", fmt.Sprint(len(na), " nodes"), fmt.Sprint(len(nb), " nodes")
	}
	for i := range na {
		a, b := na[i], nb[i]
		da, db := a.Details(), b.Details()
		fam := world.ShortKey(a.Family())
		if fam == "syscall.Errno" && strings.HasSuffix(b.Family(), "errbase.OpaqueErrno") && a.Message() == b.Message() {
			// an errno of another platform is kept as (and forwarded under
			// the name of) its stand-in
			continue
		}
		switch {
		case a.Path != b.Path:
			return "structure:" + fam, a.Path, b.Path
		case a.Family() != b.Family():
			return "family:" + fam, a.Family(), b.Family()
		case da.OriginalTypeName != db.OriginalTypeName:
			return "type-name:" + fam, da.OriginalTypeName, db.OriginalTypeName
		case a.Message() != b.Message():
			return "message:" + fam, fmt.Sprintf("%q", a.Message()), fmt.Sprintf("%q", b.Message())
		case a.Wrapper != nil && b.Wrapper != nil && a.Wrapper.MessageType != b.Wrapper.MessageType:
			return "message-type:" + fam, fmt.Sprint(a.Wrapper.MessageType), fmt.Sprint(b.Wrapper.MessageType)
		}
		if isBarrierOrSecondary(a.Family()) {
			continue
		}
		if fmt.Sprintf("%q", da.ReportablePayload) != fmt.Sprintf("%q", db.ReportablePayload) {
			return "details:" + fam, short(fmt.Sprintf("%q", da.ReportablePayload)), short(fmt.Sprintf("%q", db.ReportablePayload))
		}
		if (da.FullDetails == nil) != (db.FullDetails == nil) ||
			(da.FullDetails != nil && (da.FullDetails.TypeUrl != db.FullDetails.TypeUrl || !bytes.Equal(da.FullDetails.Value, db.FullDetails.Value))) {
			return "payload:" + fam, "as received", "differs"
		}
	}
	return "", "", ""
}

// wireDiffCulprit finds the family of the first wire node that differs
// between two encodings of (supposedly) the same error.
func wireDiffCulprit(a, b []byte) string {
	ea, err1 := world.ParseWire(a)
	eb, err2 := world.ParseWire(b)
	if err1 != nil || err2 != nil {
		return "unparseable"
	}
	var na, nb []*world.WireNode
	world.WalkWire(ea, false, func(w *world.WireNode) { na = append(na, w) })
	world.WalkWire(eb, false, func(w *world.WireNode) { nb = append(nb, w) })
	// deepest-last order: report the last node (deepest in pre-order) whose own fields differ
	culprit := "structure"
	for i := range na {
		if i >= len(nb) {
			break
		}
		if na[i].Path != nb[i].Path {
			return "structure:" + world.ShortKey(na[i].Family())
		}
		da, _ := na[i].Details().Marshal()
		db, _ := nb[i].Details().Marshal()
		if na[i].Message() != nb[i].Message() || !bytes.Equal(da, db) ||
			(na[i].Wrapper != nil && nb[i].Wrapper != nil && na[i].Wrapper.MessageType != nb[i].Wrapper.MessageType) {
			culprit = world.ShortKey(na[i].Family())
		}
	}
	return culprit
}

// runDeep is the C01 scenario for a very deep chain, observed cheaply: the
// number of layers, their Go types and the Error() text at the root and at
// three sampled layers (rendering every layer of a chain this deep is cubic).
func runDeep(t *tape.Tape, spec *gen.Node) *Result {
	res := &Result{}
	world.Full().Install()
	e0 := gen.Build(spec)
	type lite struct {
		n     int
		types string
		texts []string
	}
	observe := func(e error) lite {
		var l lite
		var layers []error
		for c := e; c != nil; c = errors.UnwrapOnce(c) {
			layers = append(layers, c)
		}
		l.n = len(layers)
		for i, c := range layers {
			l.types += fmt.Sprintf("%T;", c)
			if i == 0 || i == l.n/3 || i == 2*l.n/3 || i == l.n-1 {
				c := c
				l.texts = append(l.texts, obs.S(func() string { return c.Error() }))
			}
		}
		return l
	}
	want := observe(e0)
	res.Desc.Tree = fmt.Sprintf("deep chain of %d layers", want.n)
	res.Kinds = kindsOf(spec)
	data, p := obs.Encode(e0)
	if p != "" {
		res.add(Violation{Prop: "C01", Oracle: "encode-at-origin", Culprit: obs.PanicSite(p), Expected: "no panic", Observed: short(p)})
		return res
	}
	for hop := 1; hop <= 3; hop++ {
		e, p := obs.Decode(data)
		if p != "" || e == nil {
			res.add(Violation{Prop: "C01", Oracle: "decode", Culprit: obs.PanicSite(p), Expected: "decoded error", Observed: short(p), Where: fmt.Sprint("hop ", hop)})
			return res
		}
		got := observe(e)
		if got.n != want.n {
			res.add(Violation{Prop: "C01", Oracle: "shape-after-hop", Culprit: "deep-chain", Expected: fmt.Sprint(want.n, " layers"), Observed: fmt.Sprint(got.n, " layers"), Where: fmt.Sprint("hop ", hop)})
		} else if fmt.Sprintf("%q", got.texts) != fmt.Sprintf("%q", want.texts) {
			res.add(Violation{Prop: "C01", Oracle: "text-after-hop", Culprit: "deep-chain", Expected: short(fmt.Sprintf("%q", want.texts)), Observed: short(fmt.Sprintf("%q", got.texts)), Where: fmt.Sprint("hop ", hop)})
		}
		next, p2 := obs.Encode(e)
		if p2 != "" {
			res.add(Violation{Prop: "C01", Oracle: "re-encode", Culprit: obs.PanicSite(p2), Expected: "no panic", Observed: short(p2), Where: fmt.Sprint("hop ", hop)})
			return res
		}
		if hop >= 2 && !bytes.Equal(next, data) {
			res.add(Violation{Prop: "C01", Oracle: "wire-drift", Culprit: "deep-chain", Expected: "identical bytes", Observed: "differs", Where: fmt.Sprint("hop ", hop)})
		}
		data = next
	}
	res.Stats.Faults = map[string]int{}
	res.Stats.Deliveries = 3
	res.count("deep-chains", 1)
	res.Nontrivial = true
	res.Key = fmt.Sprintf("deep|%d", want.n)
	res.LogDigest = fmt.Sprint(want.n)
	return res
}
