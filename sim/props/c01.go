package props

import (
	"bytes"
	"fmt"

	"errsim/gen"
	"errsim/obs"
	"errsim/tape"
	"errsim/world"
)

// C01 — error text and cause-tree structure survive network transfer
// between processes that know the same types; re-encoding is a fixpoint
// from the second wire message on.
type c01 struct{}

func init() { register(c01{}) }

func (c01) ID() string { return "C01" }

func (c01) Rule() string {
	return "each run: seeded error tree over all constructors (regular strings, swarm-selected constructor groups), " +
		"cluster of 2..6 knowing processes, 1..2 routes of 1..8 hops with duplication/delay; " +
		"distinct = (constructor-shape signature x route lengths x duplicate count); " +
		"non-trivial = tree has >= 2 layers and some route has >= 1 hop (always true for routes)"
}

func (c01) Run(t *tape.Tape, tier Tier) *Result {
	res := &Result{}
	cfg := gen.Config{Alpha: gen.Regular, Swarm: true, MaxDepth: 6, MaxNodes: 16}
	maxHops := 5
	if tier == Thorough {
		cfg.MaxDepth, cfg.MaxNodes = 7, 24
		maxHops = 8
	}
	g := gen.New(t, cfg)
	spec := g.Tree()
	sim := world.NewSim(t)
	nproc := 2 + t.Draw(5)
	for i := 0; i < nproc; i++ {
		sim.AddProcess(world.Full())
	}
	sim.At(0)
	e0 := gen.Build(spec)
	want := obs.Tree(e0, false)
	m1, p := obs.Encode(e0)
	res.Desc.Tree = spec.Expr()
	res.Desc.Cluster = clusterDesc(sim)
	res.Kinds = kindsOf(spec)
	if p != "" {
		res.add(Violation{Prop: "C01", Oracle: "encode-at-origin", Culprit: typeOfLayer(want[0]), Expected: "no panic", Observed: p})
		return res
	}
	nroutes := 1 + t.Draw(2)
	lens := ""
	for r := 0; r < nroutes; r++ {
		route := drawRoute(t, nproc, maxHops)
		if r == 1 {
			sim.Stats.Fanouts++
		}
		lens += fmt.Sprint(len(route), ",")
		res.Desc.Routes = append(res.Desc.Routes, routeString(append([]int{0}, route...)))
		sim.At(0)
		sim.Send(0, 1, []int{0}, route, m1)
	}
	m1eqm2, m1nem2 := 0, 0
	sim.OnDeliver = func(d *world.Delivery) {
		where := fmt.Sprintf("flow %d hop %d at process %d via %s", d.Msg.Flow, d.Msg.Hop, d.Proc.ID, routeString(d.Msg.Path))
		if d.Panic != "" {
			res.add(Violation{Prop: "C01", Oracle: "decode", Culprit: typeOfLayer(want[0]), Expected: "decoded error", Observed: d.Panic, Where: where})
			return
		}
		got := obs.Tree(d.Err, false)
		sim.Logf("obs %s", obs.Shape(got))
		if kind, culprit, e, o := treeDiff(want, got); kind != "" {
			res.add(Violation{Prop: "C01", Oracle: kind + "-after-hop", Culprit: culprit, Expected: e, Observed: o, Where: where})
		}
		if d.RePanic != "" {
			res.add(Violation{Prop: "C01", Oracle: "re-encode", Culprit: typeOfLayer(want[0]), Expected: "no panic", Observed: d.RePanic, Where: where})
			return
		}
		if d.Msg.Hop >= 2 {
			if !bytes.Equal(d.ReData, d.Msg.Data) {
				culprit := wireDiffCulprit(d.Msg.Data, d.ReData)
				res.add(Violation{Prop: "C01", Oracle: "wire-drift", Culprit: culprit,
					Expected: fmt.Sprintf("m%d == m%d (%d bytes)", d.Msg.Hop+1, d.Msg.Hop, len(d.Msg.Data)),
					Observed: fmt.Sprintf("%d bytes, differs", len(d.ReData)), Where: where})
			}
		} else if bytes.Equal(d.ReData, d.Msg.Data) {
			m1eqm2++
		} else {
			m1nem2++
		}
	}
	sim.Run()
	res.Stats = sim.Stats
	res.count("m1==m2", m1eqm2)
	res.count("m1!=m2", m1nem2)
	res.LogDigest = sim.LogDigest()
	res.Nontrivial = len(want) >= 2 && sim.Stats.Deliveries >= 1
	res.Key = fmt.Sprintf("%s|%s|d%d", spec.Shape(), lens, sim.Stats.Duplicates)
	return res
}

// wireDiffCulprit finds the family of the first wire node that differs
// between two encodings of (supposedly) the same error.
func wireDiffCulprit(a, b []byte) string {
	ea, err1 := world.ParseWire(a)
	eb, err2 := world.ParseWire(b)
	if err1 != nil || err2 != nil {
		return "unparseable"
	}
	var na, nb []*world.WireNode
	world.WalkWire(ea, false, func(w *world.WireNode) { na = append(na, w) })
	world.WalkWire(eb, false, func(w *world.WireNode) { nb = append(nb, w) })
	// deepest-last order: report the last node (deepest in pre-order) whose own fields differ
	culprit := "structure"
	for i := range na {
		if i >= len(nb) {
			break
		}
		if na[i].Path != nb[i].Path {
			return "structure:" + world.ShortKey(na[i].Family())
		}
		da, _ := na[i].Details().Marshal()
		db, _ := nb[i].Details().Marshal()
		if na[i].Message() != nb[i].Message() || !bytes.Equal(da, db) ||
			(na[i].Wrapper != nil && nb[i].Wrapper != nil && na[i].Wrapper.MessageType != nb[i].Wrapper.MessageType) {
			culprit = world.ShortKey(na[i].Family())
		}
	}
	return culprit
}
