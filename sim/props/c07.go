package props

import (
	goerrors "errors"
	"fmt"
	"reflect"
	"strings"

	"errsim/gen"
	"errsim/model"
	"errsim/obs"
	"errsim/tape"
	"errsim/world"

	"github.com/cockroachdb/errors"
	"github.com/cockroachdb/redact"
)

// C07 — barriers, secondary errors and Mark references hide their payload
// from cause analysis.
type c07 struct{}

func init() { register(c07{}) }

func (c07) ID() string { return "C07" }

func (c07) Rule() string {
	return "each run: seeded tree (regular strings) forced to contain a barrier, secondary-error or Mark node, hidden sub-trees biased towards loud content (hints, details, domains, " +
		"assertion flags, codes, telemetry keys, tags, sentinels, registered user types); the tree e and its twin e' (every hidden sub-tree of a barrier / secondary error / error argument " +
		"replaced by a bare error with the same text) travel the same route over knowing and unknowing processes; differential oracle per delivery: visible chain (types, texts), UnwrapAll, " +
		"every accessor, HasType/As for every hidden type, the nodes shown to If, Is/IsAny against every hidden node and sentinel agree between e and e'; direct oracles: Handled keeps the " +
		"text, *WithMessage replaces it (an empty replacement included, which must not hide the hidden error from %+v), Mark adds no accessor result and no match on inner layers of its reference, the hidden error is visible in %+v; " +
		"distinct = (constructor-shape signature x profile sequence); non-trivial = at least one hidden sub-tree with >= 2 nodes or an annotation"
}

func isHidingKind(k gen.Kind) bool {
	return gen.Info(k).Groups&(gen.GBarrier|gen.GSecondary|gen.GMark) != 0
}

type heldPair struct {
	e, twin error
}

func (c07) Run(t *tape.Tape, tier Tier) *Result {
	res := &Result{}
	cfg := gen.Config{Alpha: gen.Regular, Swarm: false, MaxDepth: 6, MaxNodes: 14, HiddenLoud: true,
		Boost: gen.GBarrier | gen.GSecondary | gen.GMark, BoostFactor: 4}
	if tier == Thorough {
		cfg.MaxDepth, cfg.MaxNodes = 7, 22
	}
	g := gen.New(t, cfg)
	spec := g.Tree()
	if !spec.HasKind(isHidingKind) && !spec.HasKind(func(k gen.Kind) bool { return false }) {
		hasHidden := false
		spec.Walk(func(n *gen.Node, h bool) { hasHidden = hasHidden || h })
		if !hasHidden {
			// wrap into a hiding constructor
			ks := []gen.Kind{gen.LHandled, gen.LHandledMsg, gen.WSecondary, gen.WMark, gen.LHandleAssert, gen.LHandledDom}
			k := ks[t.Draw(len(ks))]
			n := &gen.Node{K: k}
			for _, c := range gen.Info(k).Slots {
				n.S = append(n.S, g.SG.Str(c == 'S'))
			}
			if gen.Info(k).Arity == gen.Wrap {
				n.Kids = []*gen.Node{g.Sub(3)}
			}
			n.Hid = []*gen.Node{spec}
			spec = n
		}
	}
	sim := world.NewSim(t)
	sim.AddProcess(world.Full())
	sim.At(0)
	// build e, recording hidden errors; build the twin with replaced hidden sub-trees
	var hiddenErrs []error
	b := &gen.Builder{ReplaceHidden: func(parent *gen.Node, idx int, built error) error {
		hiddenErrs = append(hiddenErrs, built)
		return built
	}}
	e0 := b.Build(spec)
	bt := &gen.Builder{ReplaceHidden: func(parent *gen.Node, idx int, built error) error {
		if parent.K == gen.WMark {
			return built // Mark references are checked directly, not differentially
		}
		// the text a barrier shows for its hidden error is the library's
		// rendering of it (equal to Error() except for the recorded
		// *net.OpError finding, which the direct check below reports)
		return goerrors.New(obs.S(func() string { return redact.Sprint(built).StripMarkers() }))
	}}
	t0 := bt.Build(spec)
	res.Desc.Tree = spec.Expr()
	res.Kinds = kindsOf(spec)
	// the probe set: every layer of every hidden error, plus the sentinels
	var probes []error
	var probeNames []string
	hiddenSize := 0
	for hi, h := range hiddenErrs {
		for _, n := range obs.Tree(h, false) {
			probes = append(probes, n.Err)
			probeNames = append(probeNames, fmt.Sprintf("hidden%d[%s]:%s", hi, n.Path, typeOfLayer(n)))
			hiddenSize++
		}
	}
	for i, s := range gen.Sentinels {
		probes = append(probes, s)
		probeNames = append(probeNames, gen.SentinelNames[i])
	}
	// At a process that does not know barrierErr the wire message of a barrier
	// is shown with redaction markers (recorded C04 finding), and the twin's
	// hidden text is unsafe where the original's may be safe: texts are
	// compared modulo the marker characters there.
	var norm func(string) string
	isCompare := true // Is/IsAny are compared at knowing processes only (mark texts, same reason)
	compare := func(e, twin error, where string) {
		te, tt := obs.Tree(e, false), obs.Tree(twin, false)
		for i := range te {
			te[i].Text = norm(te[i].Text)
		}
		for i := range tt {
			tt[i].Text = norm(tt[i].Text)
		}
		if obs.Shape(te) != obs.Shape(tt) {
			res.add(Violation{Prop: "C07", Oracle: "visible-shape", Culprit: typeOfLayer(te[0]), Expected: obs.Shape(tt), Observed: obs.Shape(te), Where: where})
			return
		}
		for i := range te {
			if te[i].GoType != tt[i].GoType || te[i].Text != tt[i].Text {
				res.add(Violation{Prop: "C07", Oracle: "visible-chain", Culprit: typeOfLayer(tt[i]),
					Expected: tt[i].GoType + " " + fmt.Sprintf("%q", tt[i].Text), Observed: te[i].GoType + " " + fmt.Sprintf("%q", te[i].Text), Where: where})
			}
		}
		// the standard library's view of the chain (Unwrap methods, std Is)
		stdChain := func(x error) string {
			var b strings.Builder
			for c, i := x, 0; c != nil && i < 64; c, i = goerrors.Unwrap(c), i+1 {
				fmt.Fprintf(&b, "%T|%s;", c, norm(obs.S(func() string { return c.Error() })))
			}
			return b.String()
		}
		if se, st := stdChain(e), stdChain(twin); se != st {
			res.add(Violation{Prop: "C07", Oracle: "std-unwrap-sees-hidden", Culprit: typeOfLayer(te[0]), Expected: short(st), Observed: short(se), Where: where})
		}
		ra, rb := errors.UnwrapAll(e), errors.UnwrapAll(twin)
		if fmt.Sprintf("%T", ra) != fmt.Sprintf("%T", rb) || norm(errors.Cause(e).Error()) != norm(errors.Cause(twin).Error()) {
			res.add(Violation{Prop: "C07", Oracle: "root-cause", Culprit: fmt.Sprintf("%T", rb), Expected: fmt.Sprintf("%T", rb), Observed: fmt.Sprintf("%T", ra), Where: where})
		}
		ae, at := obs.Accessors(e), obs.Accessors(twin)
		for i := range ae {
			if ae[i].V != at[i].V {
				res.add(Violation{Prop: "C07", Oracle: "accessor-sees-hidden", Culprit: ae[i].K, Expected: short(at[i].V), Observed: short(ae[i].V), Where: where})
			}
		}
		// If: the nodes shown to the predicate
		shown := func(x error) string {
			var b strings.Builder
			errors.If(x, func(c error) (interface{}, bool) {
				fmt.Fprintf(&b, "%T|%s;", c, norm(obs.S(func() string { return c.Error() })))
				return nil, false
			})
			return b.String()
		}
		if se, st := shown(e), shown(twin); se != st {
			res.add(Violation{Prop: "C07", Oracle: "if-sees-hidden", Culprit: typeOfLayer(te[0]), Expected: short(st), Observed: short(se), Where: where})
		}
		var anyE, anyT bool
		for i, x := range probes {
			ie, it := byte('-'), byte('-')
			if isCompare {
				ie, it = obs.IsOne(e, x), obs.IsOne(twin, x)
			}
			if ie == 'T' {
				anyE = true
			}
			if it == 'T' {
				anyT = true
			}
			if isCompare {
				se, st := obs.S(func() string { return fmt.Sprint(goerrors.Is(e, x)) }), obs.S(func() string { return fmt.Sprint(goerrors.Is(twin, x)) })
				if se != st {
					res.add(Violation{Prop: "C07", Oracle: "std-is-sees-hidden", Culprit: probeClass(probeNames[i]), Expected: st, Observed: se, Where: where + " probe=" + probeNames[i]})
				}
			}
			if ie != it {
				res.add(Violation{Prop: "C07", Oracle: "is-sees-hidden", Culprit: probeClass(probeNames[i]) + ":" + string(it) + "->" + string(ie),
					Expected: string(it), Observed: string(ie), Where: where + " probe=" + probeNames[i]})
			}
			if i >= hiddenSize {
				continue
			}
			he, ht := errors.HasType(e, x), errors.HasType(twin, x)
			if he != ht {
				res.add(Violation{Prop: "C07", Oracle: "hastype-sees-hidden", Culprit: probeClass(probeNames[i]), Expected: fmt.Sprint(ht), Observed: fmt.Sprint(he), Where: where + " probe=" + probeNames[i]})
			}
			asOf := func(root error) string {
				return obs.S(func() string {
					target := reflect.New(reflect.TypeOf(x))
					return fmt.Sprint(errors.As(root, target.Interface()))
				})
			}
			if a1, a2 := asOf(e), asOf(twin); a1 != a2 {
				res.add(Violation{Prop: "C07", Oracle: "as-sees-hidden", Culprit: probeClass(probeNames[i]), Expected: a2, Observed: a1, Where: where + " probe=" + probeNames[i]})
			}
		}
		if !isCompare {
			return
		}
		ge := obs.S(func() string { return fmt.Sprint(errors.IsAny(e, probes...)) })
		gt := obs.S(func() string { return fmt.Sprint(errors.IsAny(twin, probes...)) })
		if ge != gt || (!obs.IsPanic(ge) && (ge == "true") != anyE) || (!obs.IsPanic(gt) && (gt == "true") != anyT) {
			res.add(Violation{Prop: "C07", Oracle: "isany-sees-hidden", Culprit: typeOfLayer(te[0]), Expected: gt, Observed: ge, Where: where})
		}
	}
	ident := func(s string) string { return s }
	stripMarkers := strings.NewReplacer("‹", "", "›", "", "?", "").Replace
	norm = ident
	compare(e0, t0, "origin (local)")
	// ---- direct checks at the origin
	hiddenTokens := map[*gen.Node][]string{}
	spec.Walk(func(n *gen.Node, _ bool) {
		ki := gen.Info(n.K)
		if len(n.Hid) == 0 {
			return
		}
		built := b.Built[n]
		// locate the layer of interest inside what the constructor built
		switch {
		case ki.Groups&gen.GBarrier != 0:
			h := b.Built[n.Hid[0]]
			// the barrier layer is the innermost layer of what was built
			layer := errors.UnwrapAll(built)
			switch n.K {
			case gen.LHandled, gen.LOpaque, gen.LHandledDom, gen.LDomHandled, gen.LHandleAssert:
				if layer.Error() != h.Error() {
					res.add(Violation{Prop: "C07", Oracle: "handled-keeps-text", Culprit: n.K.String(), Expected: fmt.Sprintf("%q", h.Error()), Observed: fmt.Sprintf("%q", layer.Error())})
				}
			case gen.LHandledMsg:
				if layer.Error() != n.S[0].V {
					res.add(Violation{Prop: "C07", Oracle: "withmessage-replaces-text", Culprit: n.K.String(), Expected: fmt.Sprintf("%q", n.S[0].V), Observed: fmt.Sprintf("%q", layer.Error())})
				}
			case gen.LHandledDomMsg:
				if layer.Error() != n.S[1].V {
					res.add(Violation{Prop: "C07", Oracle: "withmessage-replaces-text", Culprit: n.K.String(), Expected: fmt.Sprintf("%q", n.S[1].V), Observed: fmt.Sprintf("%q", layer.Error())})
				}
			}
		case n.K == gen.WMark:
			ref := b.Built[n.Hid[0]]
			inner := b.Built[n.Kids[0]]
			am, ai := obs.Accessors(built), obs.Accessors(inner)
			for i := range am {
				switch am[i].K {
				case "IsAssertionFailure", "IsIssueLink", "IsUnimplementedError":
					continue // these test the outermost layer only, by definition
				case "IsPermission", "IsExist", "IsNotExist":
					continue // defined through Is(): matching the reference is what Mark is for
				}
				if am[i].V != ai[i].V {
					res.add(Violation{Prop: "C07", Oracle: "mark-adds-accessor-result", Culprit: am[i].K, Expected: short(ai[i].V), Observed: short(am[i].V)})
				}
			}
			rm := model.MarkOf(ref, b.MarkRefs)
			for _, x := range obs.Tree(ref, false)[1:] {
				if model.MarkOf(x.Err, b.MarkRefs).Equal(rm) {
					continue
				}
				if a, c := obs.IsOne(built, x.Err), obs.IsOne(inner, x.Err); a != c {
					res.add(Violation{Prop: "C07", Oracle: "mark-matches-inner-layer-of-reference", Culprit: typeOfLayer(x), Expected: string(c), Observed: string(a)})
				}
			}
		}
	})
	var walkTok func(n *gen.Node, underMark bool)
	walkTok = func(n *gen.Node, underMark bool) {
		for _, k := range n.Kids {
			walkTok(k, underMark)
		}
		for _, h := range n.Hid {
			if n.K != gen.WMark && !underMark {
				for _, tok := range h.Tokens() {
					if !tok.UnderMark && !tok.Gone {
						hiddenTokens[n] = append(hiddenTokens[n], tok.Tok)
					}
				}
			}
			walkTok(h, underMark || n.K == gen.WMark)
		}
	}
	walkTok(spec, false)
	// nil handling of the hiding constructors, as documented: nothing to hide
	// from gives nothing (except CombineErrors, which returns the other error)
	if len(hiddenErrs) > 0 {
		h := hiddenErrs[0]
		for _, c := range []struct {
			name string
			got  error
			want error
		}{
			{"errors.WithSecondaryError(nil, e)", errors.WithSecondaryError(nil, h), nil},
			{"errors.WithSecondaryError(e, nil)", errors.WithSecondaryError(h, nil), h},
			{"errors.CombineErrors(nil, e)", errors.CombineErrors(nil, h), h},
			{"errors.CombineErrors(e, nil)", errors.CombineErrors(h, nil), h},
			{"errors.Handled(nil)", errors.Handled(nil), nil},
			{"errors.HandledWithMessage(nil)", errors.HandledWithMessage(nil, "x"), nil},
			{"errors.Mark(nil, e)", errors.Mark(nil, h), nil},
		} {
			if !sameValue(interface{}(c.got), interface{}(c.want)) && !(c.got == nil && c.want == nil) {
				res.add(Violation{Prop: "C07", Oracle: "nil-argument-contract", Culprit: c.name, Expected: fmt.Sprintf("%v", c.want), Observed: fmt.Sprintf("%v", c.got)})
			}
		}
	}
	// a barrier sent by a peer running the previous version of the library
	// (other type name, plain message): the message is the barrier's text
	if len(hiddenErrs) > 0 {
		h := hiddenErrs[0]
		const msg = "TKUprevQ replaced"
		if data, p := obs.Encode(errors.HandledWithMessage(h, msg)); p == "" {
			if enc, err := world.ParseWire(data); err == nil && enc.GetLeaf() != nil {
				l := enc.GetLeaf()
				old := strings.TrimSuffix(l.Details.ErrorTypeMark.FamilyName, "barrierErr") + "barrierError"
				l.Details.OriginalTypeName, l.Details.ErrorTypeMark.FamilyName, l.Message = old, old, msg
				if raw, merr := enc.Marshal(); merr == nil {
					dec, p2 := obs.Decode(raw)
					if p2 == "" && dec != nil {
						if got := obs.S(func() string { return dec.Error() }); got != msg {
							res.add(Violation{Prop: "C07", Oracle: "withmessage-replaces-text", Culprit: "previous-version barrier", Expected: msg, Observed: short(got)})
						}
						if errors.UnwrapOnce(dec) != nil {
							res.add(Violation{Prop: "C07", Oracle: "unwrap-reaches-hidden", Culprit: "previous-version barrier", Expected: "nil", Observed: "non-nil"})
						}
					}
				}
			}
		}
	}
	// the *WithMessage variants replace the text even with an empty message
	if len(hiddenErrs) > 0 {
		h := hiddenErrs[0]
		if got := errors.HandledWithMessage(h, "").Error(); got != "" {
			res.add(Violation{Prop: "C07", Oracle: "withmessage-replaces-text", Culprit: "errors.HandledWithMessage(empty)", Expected: `""`, Observed: fmt.Sprintf("%q", got)})
		}
		if got := errors.HandledInDomainWithMessage(h, errors.NamedDomain("d"), "").Error(); got != "" {
			res.add(Violation{Prop: "C07", Oracle: "withmessage-replaces-text", Culprit: "errors.HandledInDomainWithMessage(empty)", Expected: `""`, Observed: fmt.Sprintf("%q", got)})
		}
		// ... and the hidden error stays visible in %+v then, too
		for _, c := range []struct {
			name string
			e    error
		}{
			{"errors.HandledWithMessage(empty)", errors.HandledWithMessage(h, "")},
			{"errors.HandledInDomainWithMessage(empty)", errors.HandledInDomainWithMessage(h, errors.NamedDomain("d"), "")},
			{"errors.Wrap(HandledWithMessage(empty))", errors.Wrap(errors.HandledWithMessage(h, ""), "outer")},
		} {
			for _, verbose := range []string{obs.Fmt("%+v", c.e), obs.Red("%+v", c.e)} {
				if obs.IsPanic(verbose) {
					continue
				}
				for _, tok := range tokenRE.FindAllString(h.Error(), -1) {
					if !strings.Contains(verbose, tok) {
						res.add(Violation{Prop: "C07", Oracle: "hidden-visible-in-verbose", Culprit: c.name, Expected: "token " + tok + " of the hidden error in %+v", Observed: short(verbose)})
						break
					}
				}
			}
		}
	}
	verbose0 := obs.Fmt("%+v", e0)
	for n, toks := range hiddenTokens {
		for _, tok := range toks {
			if !strings.Contains(verbose0, tok) {
				res.add(Violation{Prop: "C07", Oracle: "hidden-visible-in-verbose", Culprit: n.K.String(), Expected: "token " + tok + " in %+v", Observed: short(verbose0), Where: "origin (local)"})
			}
		}
	}
	// message tokens of hidden errors: must stay visible in %+v after transfer to knowing processes
	// (hidden errors of barriers / secondary errors / error arguments that do
	// not themselves sit under a Mark reference, of which only the message of
	// the outermost mark survives)
	var msgTokens []string
	var walkHidden func(n *gen.Node, underMark bool)
	walkHidden = func(n *gen.Node, underMark bool) {
		for _, k := range n.Kids {
			walkHidden(k, underMark)
		}
		for _, h := range n.Hid {
			if n.K != gen.WMark && !underMark {
				msgTokens = append(msgTokens, tokenRE.FindAllString(b.Built[h].Error(), -1)...)
			}
			walkHidden(h, underMark || n.K == gen.WMark)
		}
	}
	walkHidden(spec, false)
	// ---- route
	m1, p1 := obs.Encode(e0)
	m2, p2 := obs.Encode(t0)
	if p1 != "" || p2 != "" {
		res.add(Violation{Prop: "C07", Oracle: "encode-at-origin", Culprit: obs.PanicSite(p1 + p2), Expected: "no panic", Observed: p1 + p2})
		return res
	}
	fams := familiesOf(m1)
	nproc := 2 + t.Draw(3)
	profKey := ""
	for i := 1; i < nproc; i++ {
		if t.Bool(1, 3) {
			pr := drawUnknowing(t, fams)
			sim.AddProcess(pr)
			profKey += pr.Name + ";"
		} else {
			sim.AddProcess(world.Full())
			profKey += "full;"
		}
	}
	res.Desc.Cluster = clusterDesc(sim)
	sim.DupNum = 0
	if !t.Bool(1, 5) {
		route := drawRoute(t, nproc, 4)
		res.Desc.Routes = []string{routeString(append([]int{0}, route...))}
		sim.Send(0, 1, []int{0}, route, m1)
		sim.Send(1, 1, []int{0}, route, m2)
	}
	// safe tokens the hidden errors contribute to safe details at the origin:
	// a freshly decoded copy must contribute them too, before anything
	// (formatting, re-encoding) has been done to it
	var hiddenSafe []string
	{
		var collect []string
		for _, n := range obs.Tree(e0, false) {
			collect = append(collect, n.Safe...)
		}
		all := strings.Join(collect, "\x1e")
		seen := map[string]bool{}
		for _, tok := range msgTokens {
			if strings.HasPrefix(tok, "TKS") && strings.Contains(all, tok) && !seen[tok] {
				seen[tok] = true
				hiddenSafe = append(hiddenSafe, tok)
			}
		}
	}
	sim.OnFresh = func(d *world.Delivery) {
		if d.Msg.Flow != 0 || !d.Proc.Prof.IsFull() {
			return
		}
		var collect []string
		for _, n := range obs.Tree(d.Err, false) {
			collect = append(collect, n.Safe...)
		}
		all := strings.Join(collect, "\x1e")
		for _, tok := range hiddenSafe {
			if !strings.Contains(all, tok) {
				res.add(Violation{Prop: "C07", Oracle: "hidden-contributes-safe-details-after-transfer", Culprit: "fresh-decoded-value", Expected: "token " + tok + " in the per-layer safe details",
					Observed: short(all), Where: fmt.Sprintf("hop %d at process %d, before the value was formatted or re-encoded", d.Msg.Hop, d.Proc.ID)})
			}
		}
	}
	held := map[[2]int]*heldPair{}
	// (barriers only, and only those that are themselves visible: a barrier
	// sends a redacted rendering of what it hides as reportable details; a
	// secondary-error wrapper sends its payload only)
	var safeHidden []gen.Token
	var walkB func(n *gen.Node)
	walkB = func(n *gen.Node) {
		if gen.Info(n.K).Groups&gen.GBarrier != 0 {
			for _, h := range n.Hid[:1] {
				for _, tok := range h.Tokens() {
					if tok.Safe && !tok.Neutral && !tok.UnderMark && !tok.Gone && !tok.UnderHidden {
						safeHidden = append(safeHidden, tok)
					}
				}
			}
		}
		for _, k := range n.Kids {
			walkB(k)
		}
	}
	walkB(spec)
	sim.OnDeliver = func(d *world.Delivery) {
		where := fmt.Sprintf("hop %d at process %d (%s) via %s", d.Msg.Hop, d.Proc.ID, d.Proc.Prof.Name, routeString(d.Msg.Path))
		if d.Panic != "" || d.RePanic != "" {
			res.add(Violation{Prop: "C07", Oracle: "transfer", Culprit: obs.PanicSite(d.Panic + d.RePanic), Expected: "no panic", Observed: short(d.Panic + d.RePanic), Where: where})
			return
		}
		key := [2]int{d.Proc.ID, d.Msg.Hop}
		hp := held[key]
		if hp == nil {
			hp = &heldPair{}
			held[key] = hp
		}
		if d.Msg.Flow == 0 {
			hp.e = d.Err
			if d.Proc.Prof.IsFull() {
				v := obs.Fmt("%+v", d.Err)
				for _, tok := range msgTokens {
					if !strings.Contains(v, tok) {
						res.add(Violation{Prop: "C07", Oracle: "hidden-visible-in-verbose-after-transfer", Culprit: typeOfLayer(obs.Tree(d.Err, false)[0]), Expected: "token " + tok + " in %+v", Observed: short(v), Where: where})
					}
				}
			} else {
				// a process that does not know every type (possibly not the
				// barrier or the secondary-error wrapper itself) sees of a
				// hidden error at least what was declared safe
				v := obs.Fmt("%+v", d.Err)
				if !obs.IsPanic(v) {
					for _, tok := range safeHidden {
						if !strings.Contains(v, tok.Tok) {
							res.add(Violation{Prop: "C07", Oracle: "hidden-safe-parts-visible-at-unknowing", Culprit: tok.Kind.String(), Expected: "safe token " + tok.Tok + " of a hidden error in %+v", Observed: short(v), Where: where})
						}
					}
				}
			}
		} else {
			hp.twin = d.Err
		}
		if hp.e != nil && hp.twin != nil {
			sim.Logf("compare %v", key)
			norm, isCompare = ident, true
			if !d.Proc.Prof.IsFull() {
				norm, isCompare = stripMarkers, false
			}
			compare(hp.e, hp.twin, where)
			hp.e, hp.twin = nil, nil
		}
	}
	sim.Run()
	res.Stats = sim.Stats
	res.LogDigest = sim.LogDigest()
	res.count("hidden-layers", hiddenSize)
	res.Nontrivial = hiddenSize >= 2
	res.Key = spec.Shape() + "|" + profKey
	return res
}

// probeClass reduces a probe name to a stable class.
func probeClass(name string) string {
	if i := strings.LastIndexByte(name, ':'); i >= 0 && strings.HasPrefix(name, "hidden") {
		return "hidden:" + name[i+1:]
	}
	return name
}
