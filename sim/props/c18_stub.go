//go:build !c18

package props

import "errsim/tape"

// The cooperative layer of C18 needs the yield-instrumented build
// (go build -tags "verif c18" -overlay ...; see ./check).
func c18Cooperative(t *tape.Tape, tier Tier, res *Result) {
	panic("C18 requires the yield-instrumented build (tag c18 + overlay); use ./check C18")
}
