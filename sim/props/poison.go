package props

import (
	"fmt"

	"errsim/obs"
	"errsim/tape"

	"github.com/cockroachdb/errors"
	"github.com/cockroachdb/redact"
)

// poisonErr is an application error type whose formatting method fails
// half-way: it prints part of its output and then panics (a nil dereference
// in real life). fmt and redact recover from such a panic and print a
// notice; whatever the library had in flight for that call must not leak
// into later, unrelated formatting calls.
type poisonErr struct {
	msg   string
	cause error
	mode  int
}

// poisonToken marks the text printed before the panic.
const poisonToken = "PSNTKQ"

func (p *poisonErr) Error() string { return p.msg }
func (p *poisonErr) Unwrap() error { return p.cause }

func (p *poisonErr) Format(s fmt.State, verb rune) {
	if p.mode == 2 {
		// a plain fmt.Formatter that does not delegate to the library
		fmt.Fprintf(s, "%s ‹", p.msg)
		panic("poison: formatter failed half-way")
	}
	errors.FormatError(p, s, verb)
}

func (p *poisonErr) SafeFormatError(pr errors.Printer) error {
	switch p.mode {
	case 0:
		pr.Printf("%s ‹ %s", p.msg, redact.Safe("half"))
		panic("poison: formatter failed half-way")
	default:
		pr.Print(p.msg)
		if pr.Detail() {
			pr.Printf("detail ‹ %s", p.msg)
		}
		var q *poisonErr
		_ = q.msg // nil dereference
	}
	return p.cause
}

// poison performs one formatting call (drawn from the tape) that fails
// half-way inside the library's formatting code and is swallowed by fmt or
// redact, as logging code would do.
func poison(t *tape.Tape) {
	p := &poisonErr{msg: poisonToken + " ‹x", mode: t.Draw(3)}
	if t.Bool(1, 2) {
		p.cause = errors.New("inner " + poisonToken)
	}
	var e error = p
	switch t.Draw(3) {
	case 1:
		e = errors.Wrap(p, "outer")
	case 2:
		e = errors.Join(errors.New("sibling"), p)
	}
	verb := []string{"%v", "%+v", "%s"}[t.Draw(3)]
	switch t.Draw(3) {
	case 0:
		_ = obs.S(func() string { return fmt.Sprintf(verb, e) })
	case 1:
		_ = obs.S(func() string { return string(redact.Sprintf(verb, e)) })
	default:
		_ = obs.S(func() string { return fmt.Sprintf(verb, errors.Formattable(e)) })
	}
}
