package props

import (
	"sort"
	"fmt"
	"net"
	"os"
	"reflect"
	"regexp"
	"strings"
	"syscall"

	"errsim/gen"
	"errsim/model"
	"errsim/obs"
	"errsim/tape"
	"errsim/world"

	"github.com/cockroachdb/errors"
	"github.com/cockroachdb/errors/errbase"
)

// C13 — multi-cause errors behave as a tree.
type c13 struct{}

func init() { register(c13{}) }

func (c13) ID() string { return "C13" }

func (c13) Rule() string {
	return "each run: seeded tree forced to contain at least one multi-cause node (errors.Join, stdlib Join, fmt.Errorf with several %w, registered and unregistered user types; " +
		"nested and wrapped), regular strings; route of 1..5 hops over knowing and unknowing processes; per delivery: branch count/order/shape and per-branch text, " +
		"every branch's message tokens in %+v, Unwrap/UnwrapOnce nil at multi nodes, Is(M,r) = self(M,r) or some branch (reference model of self-match), IsAny = disjunction, " +
		"As assigns the first node of the reference depth-first order; at the origin: Join drops nils and joins texts with newlines; the entries of every branch are counted in %+v " +
		"(the same object may sit in two branches); 1 run in 5 uses hostile strings and checks the local semantics only; " +
		"distinct = (constructor-shape signature x profile sequence); non-trivial = at least one multi node with >= 2 branches and >= 1 hop"
}

var tokenRE = regexp.MustCompile(`TK[US][0-9]+Q`)

func isMultiKind(k gen.Kind) bool { return gen.Info(k).Arity == gen.Multi }

// asTargets returns fresh As targets and a function telling which visible
// node (index) the reference depth-first search assigns.
type asTarget struct {
	name string
	mk   func() interface{}
	typ  reflect.Type
}

var asTargets = []asTarget{
	{"*ULeafPtr", func() interface{} { return new(*gen.ULeafPtr) }, reflect.TypeOf((*gen.ULeafPtr)(nil))},
	{"*ULeafReg", func() interface{} { return new(*gen.ULeafReg) }, reflect.TypeOf((*gen.ULeafReg)(nil))},
	{"*UWrapPrefix", func() interface{} { return new(*gen.UWrapPrefix) }, reflect.TypeOf((*gen.UWrapPrefix)(nil))},
	{"*UMulti", func() interface{} { return new(*gen.UMulti) }, reflect.TypeOf((*gen.UMulti)(nil))},
	{"*os.PathError", func() interface{} { return new(*os.PathError) }, reflect.TypeOf((*os.PathError)(nil))},
	{"*net.OpError", func() interface{} { return new(*net.OpError) }, reflect.TypeOf((*net.OpError)(nil))},
	{"syscall.Errno", func() interface{} { return new(syscall.Errno) }, reflect.TypeOf(syscall.Errno(0))},
	{"ULeafVal", func() interface{} { return new(gen.ULeafVal) }, reflect.TypeOf(gen.ULeafVal{})},
	{"interface{Timeout()bool}", func() interface{} { return new(interface{ Timeout() bool }) }, reflect.TypeOf((*interface{ Timeout() bool })(nil)).Elem()},
	{"interface{ErrorHint()string}", func() interface{} { return new(interface{ ErrorHint() string }) }, reflect.TypeOf((*interface{ ErrorHint() string })(nil)).Elem()},
}

func sameValue(a, b interface{}) bool {
	defer func() { recover() }()
	if reflect.TypeOf(a) != reflect.TypeOf(b) {
		return false
	}
	if reflect.TypeOf(a).Comparable() {
		return a == b
	}
	return reflect.DeepEqual(a, b)
}

func (c13) Run(t *tape.Tape, tier Tier) *Result {
	res := &Result{}
	cfg := gen.Config{Alpha: gen.Regular, Swarm: false, MaxDepth: 5, MaxNodes: 11, Boost: gen.GMulti, BoostFactor: 5, Alias: true}
	if tier == Thorough {
		cfg.MaxDepth, cfg.MaxNodes = 6, 16
	}
	// 1 run in 5: arbitrary strings (marker runes, newlines anywhere, empty,
	// invalid UTF-8), local semantics only -- the statement about Join's text
	// and about Is/As on the tree does not restrict the branch messages
	hostileLocal := t.Draw(5) == 3
	if hostileLocal {
		cfg.Alpha = gen.Hostile
	}
	g := gen.New(t, cfg)
	spec := g.Tree()
	if !spec.HasKind(isMultiKind) {
		// force a multi-cause root above what was drawn
		root := &gen.Node{K: []gen.Kind{gen.MJoin, gen.MStdJoin, gen.MFmt, gen.MUMulti, gen.MUMultiReg}[t.Draw(5)], N: []int{t.Draw(4)}}
		if root.K != gen.MJoin && root.K != gen.MStdJoin {
			root.N = nil
			root.S = []gen.Str{g.SG.Str(false)}
		}
		root.Kids = []*gen.Node{spec, g.Sub(4)}
		spec = root
		if t.Bool(1, 2) {
			spec = &gen.Node{K: gen.WWrap, S: []gen.Str{g.SG.Str(true)}, Kids: []*gen.Node{spec}}
		}
	}
	wide := false
	if t.Draw(150) == 7 {
		// rarely: very many leaf-encoded nodes (size-dependent guards and counters)
		if t.Bool(1, 2) {
			spec = g.WideTree(60+t.Draw(60), 1)
		} else {
			spec = g.WideTree(4, 3)
		}
		if t.Bool(1, 2) {
			spec = &gen.Node{K: gen.WWrap, S: []gen.Str{g.SG.Str(true)}, Kids: []*gen.Node{spec}}
		}
		wide = true
	}
	b := &gen.Builder{}
	sim := world.NewSim(t)
	sim.AddProcess(world.Full())
	sim.At(0)
	var e0 error
	if p := obs.S(func() string { e0 = b.Build(spec); return "" }); p != "" || e0 == nil {
		if strings.Contains(p, "returned nil") {
			// (the builder refuses to go on when a constructor handed non-nil
			// arguments returns nil: for Join that is "nothing remains" although
			// something does)
			res.add(Violation{Prop: "C13", Oracle: "constructor-returns-nil", Culprit: "errors.Join", Expected: "a non-nil error", Observed: short(p)})
			res.Desc.Tree = spec.Expr()
			return res
		}
		panic(p)
	}
	want := obs.Tree(e0, false)
	res.Desc.Tree = spec.Expr()
	if wide {
		res.Desc.Tree = fmt.Sprintf("wide multi-cause tree with %d nodes", len(want))
	}
	res.Kinds = kindsOf(spec)
	var m1 []byte
	if !hostileLocal {
		var p string
		m1, p = obs.Encode(e0)
		if p != "" {
			res.add(Violation{Prop: "C13", Oracle: "encode-at-origin", Culprit: typeOfLayer(want[0]), Expected: "no panic", Observed: p})
			return res
		}
	}
	allRefs := refPool(t, g, b, spec, e0, 2)
	// Is() on multi-cause trees is expensive in the library itself (every
	// mark needs the full text of every layer), so the pool is thinned:
	// sentinels occurring in the tree plus three drawn ones, up to six
	// nodes, and the generated references.
	inTree := map[int]bool{}
	spec.Walk(func(n *gen.Node, _ bool) {
		if n.K == gen.LSentinel {
			inTree[n.N[0]] = true
		}
	})
	var refs []Ref
	nodeRefs := 0
	for i, r := range allRefs {
		switch {
		case i < len(gen.Sentinels):
			if inTree[i] || t.Bool(1, 4) {
				refs = append(refs, r)
			}
		case r.Spec == nil:
			if nodeRefs < 6 {
				refs = append(refs, r)
				nodeRefs++
			}
		default:
			refs = append(refs, r)
		}
	}
	refErrs := make([]error, len(refs))
	for i, r := range refs {
		refErrs[i] = r.Err
	}
	// ---- local checks (hop 0): Join semantics
	if errors.Join() != nil || errors.Join(nil, nil) != nil {
		res.add(Violation{Prop: "C13", Oracle: "join-nil", Culprit: "errors.Join", Expected: "nil", Observed: "non-nil"})
	}
	spec.Walk(func(n *gen.Node, hidden bool) {
		if n.K != gen.MJoin && n.K != gen.MJoinBare {
			return
		}
		je := b.Built[n]
		// errors.Join adds a stack on top of the join node
		var jn error = je
		for errors.UnwrapOnce(jn) != nil {
			jn = errors.UnwrapOnce(jn)
		}
		br := errbase.UnwrapMulti(jn)
		if len(br) != len(n.Kids) {
			res.add(Violation{Prop: "C13", Oracle: "join-drops-nils", Culprit: "errors.Join", Expected: fmt.Sprint(len(n.Kids), " branches"), Observed: fmt.Sprint(len(br))})
			return
		}
		var texts []string
		for i, k := range n.Kids {
			if !sameValue(interface{}(br[i]), interface{}(b.Built[k])) {
				res.add(Violation{Prop: "C13", Oracle: "join-branch-order", Culprit: "errors.Join", Expected: fmt.Sprintf("branch %d is argument %d", i, i), Observed: "different object"})
			}
			texts = append(texts, br[i].Error())
		}
		if exp := strings.Join(texts, "\n"); jn.Error() != exp {
			res.add(Violation{Prop: "C13", Oracle: "join-text", Culprit: "errors.Join", Expected: fmt.Sprintf("%q", exp), Observed: fmt.Sprintf("%q", jn.Error())})
		}
	})
	if gen.JoinArgMutations > 0 {
		res.add(Violation{Prop: "C13", Oracle: "join-modifies-argument-slice", Culprit: "errors.Join", Expected: "the caller's slice untouched", Observed: fmt.Sprint(gen.JoinArgMutations, " elements changed")})
		gen.JoinArgMutations = 0
	}
	// ---- cluster and route
	fams := familiesOf(m1)
	nproc := 2 + t.Draw(4)
	profKey := ""
	for i := 1; i < nproc; i++ {
		if t.Bool(1, 2) {
			pr := drawUnknowing(t, fams)
			sim.AddProcess(pr)
			profKey += pr.Name + ";"
		} else {
			sim.AddProcess(world.Full())
			profKey += "full;"
		}
	}
	res.Desc.Cluster = clusterDesc(sim)
	route := drawRoute(t, nproc, 5)
	res.Desc.Routes = []string{routeString(append([]int{0}, route...))}
	sim.DupNum = 0
	if !hostileLocal {
		sim.Send(0, 1, []int{0}, route, m1)
	} else {
		res.count("hostile-local", 1)
	}
	maxBranches := 0
	for _, n := range want {
		if n.Multi > maxBranches {
			maxBranches = n.Multi
		}
	}
	// structural checks valid at any process, on any error value held there
	structural := func(nodes []obs.Node, where string, explicit map[error]error) {
		for _, n := range nodes {
			if n.Multi == 0 {
				continue
			}
			M := n.Err
			if errors.Unwrap(M) != nil || errors.UnwrapOnce(M) != nil {
				res.add(Violation{Prop: "C13", Oracle: "multi-is-leaf-for-unwrap", Culprit: typeOfLayer(n), Expected: "nil", Observed: "non-nil", Where: where})
			}
			branches := errbase.UnwrapMulti(M)
			anyT := false
			for ri, r := range refErrs {
				got := obs.IsOne(M, r)
				exp := byte('F')
				self := false
				func() {
					defer func() { recover() }()
					if reflect.TypeOf(r).Comparable() && reflect.TypeOf(M).Comparable() && M == r {
						self = true
					}
					if x, ok := M.(interface{ Is(error) bool }); ok && x.Is(r) {
						self = true
					}
					if model.MarkOf(M, explicit).Equal(model.MarkOf(r, explicit)) {
						self = true
					}
				}()
				if self {
					exp = 'T'
				}
				for _, br := range branches {
					if obs.IsOne(br, r) == 'T' {
						exp = 'T'
					}
				}
				if got == 'T' {
					anyT = true
				}
				if got != exp && got != 'P' {
					res.add(Violation{Prop: "C13", Oracle: "is-tree-semantics", Culprit: typeOfLayer(n) + ":" + string(exp) + "->" + string(got),
						Expected: string(exp), Observed: string(got), Where: where + " node " + n.Path + " ref=" + refs[ri].Name})
				}
			}
			gotAny := obs.S(func() string { return fmt.Sprint(errors.IsAny(M, refErrs...)) })
			if !obs.IsPanic(gotAny) && (gotAny == "true") != anyT {
				res.add(Violation{Prop: "C13", Oracle: "isany-tree-semantics", Culprit: typeOfLayer(n), Expected: fmt.Sprint(anyT), Observed: gotAny, Where: where})
			}
		}
		// As: reference depth-first order over the visible tree
		root := nodes[0].Err
		for _, tg := range asTargets {
			expIdx := -1
			for i, n := range nodes {
				if reflect.TypeOf(n.Err).AssignableTo(tg.typ) {
					expIdx = i
					break
				}
			}
			target := tg.mk()
			ok := false
			if p := obs.S(func() string { ok = errors.As(root, target); return "" }); p != "" {
				res.add(Violation{Prop: "C13", Oracle: "as-panics", Culprit: tg.name, Expected: "no panic", Observed: p, Where: where})
				continue
			}
			if ok != (expIdx >= 0) {
				res.add(Violation{Prop: "C13", Oracle: "as-found", Culprit: tg.name, Expected: fmt.Sprint(expIdx >= 0), Observed: fmt.Sprint(ok), Where: where})
				continue
			}
			if ok {
				got := reflect.ValueOf(target).Elem().Interface()
				if !sameValue(got, interface{}(nodes[expIdx].Err)) {
					gi := -1
					for i, n := range nodes {
						if sameValue(got, interface{}(n.Err)) {
							gi = i
							break
						}
					}
					res.add(Violation{Prop: "C13", Oracle: "as-first-match-in-branch-order", Culprit: tg.name,
						Expected: fmt.Sprintf("node %d (%s)", expIdx, nodes[expIdx].Path), Observed: fmt.Sprintf("node %d", gi), Where: where})
				}
			}
		}
	}
	if !wide {
		structural(want, "origin", b.MarkRefs)
		verboseCountsBranches(res, want, "origin")
	}
	// nodes whose text does not depend on the rendering of a multi-cause node
	multiFree := make([]bool, len(want))
	for i := range want {
		multiFree[i] = true
		for j := range want {
			if strings.HasPrefix(want[j].Path, want[i].Path) && want[j].Multi > 0 {
				multiFree[i] = false
			}
		}
	}
	sim.OnDeliver = func(d *world.Delivery) {
		where := fmt.Sprintf("hop %d at process %d (%s) via %s", d.Msg.Hop, d.Proc.ID, d.Proc.Prof.Name, routeString(d.Msg.Path))
		if d.Panic != "" || d.RePanic != "" {
			res.add(Violation{Prop: "C13", Oracle: "transfer", Culprit: typeOfLayer(want[0]), Expected: "no panic", Observed: d.Panic + d.RePanic, Where: where})
			return
		}
		got := obs.Tree(d.Err, false)
		sim.Logf("obs %s", obs.Shape(got))
		if obs.Shape(got) != obs.Shape(want) {
			_, culprit, e, o := treeDiff(want, got)
			res.add(Violation{Prop: "C13", Oracle: "branch-structure", Culprit: culprit, Expected: e, Observed: o, Where: where})
			return
		}
		full := d.Proc.Prof.IsFull()
		if full {
			if kind, culprit, e, o := treeDiff(want, got); kind != "" {
				res.add(Violation{Prop: "C13", Oracle: "branch-content", Culprit: culprit, Expected: e, Observed: o, Where: where})
			}
		} else {
			for i := range want {
				if multiFree[i] && want[i].Text != got[i].Text {
					// report the deepest such node only
					deepest := true
					for j := range want {
						if j != i && multiFree[j] && strings.HasPrefix(want[j].Path, want[i].Path) && len(want[j].Path) > len(want[i].Path) && want[j].Text != got[j].Text {
							deepest = false
						}
					}
					if deepest {
						res.add(Violation{Prop: "C13", Oracle: "branch-content-at-unknowing", Culprit: typeOfLayer(want[i]),
							Expected: fmt.Sprintf("%q", want[i].Text), Observed: fmt.Sprintf("%q", got[i].Text), Where: where})
					}
				}
			}
		}
		// %+v shows every branch: the message tokens of each branch; rendered
		// through Formattable and, when the outermost layer is a type of the
		// library (whose Format method must do the same), directly
		verbose := obs.Fmt("%+v", d.Err)
		if pp := reflect.TypeOf(d.Err); pp != nil {
			et := pp
			if et.Kind() == reflect.Ptr {
				et = et.Elem()
			}
			if strings.HasPrefix(et.PkgPath(), "github.com/cockroachdb/errors") {
				direct := obs.FmtDirect("%+v", d.Err)
				if direct != verbose {
					res.add(Violation{Prop: "C13", Oracle: "verbose-direct-equals-formattable", Culprit: fmt.Sprintf("%T", d.Err), Expected: short(verbose), Observed: short(direct), Where: where})
				}
			}
		}
		for i, n := range want {
			if n.Multi == 0 {
				continue
			}
			for bi, br := range errbase.UnwrapMulti(want[i].Err) {
				for _, tok := range tokenRE.FindAllString(br.Error(), -1) {
					if !strings.Contains(verbose, tok) {
						res.add(Violation{Prop: "C13", Oracle: "verbose-shows-branch", Culprit: typeOfLayer(n),
							Expected: fmt.Sprintf("token %s of branch %d in %%+v", tok, bi), Observed: short(verbose), Where: where})
					}
				}
			}
		}
		verboseCountsBranches(res, got, where)
		var explicit map[error]error // explicit marks of decoded values are not known to the model
		_ = explicit
		if !wide {
			structuralDecoded(res, got, refs, refErrs, where)
		}
	}
	sim.Run()
	res.Stats = sim.Stats
	res.LogDigest = sim.LogDigest()
	res.Nontrivial = maxBranches >= 2 && (sim.Stats.Deliveries >= 1 || hostileLocal)
	res.Key = spec.Shape() + "|" + profKey
	return res
}

// verboseCountsBranches: the numbered entries of a multi-cause node's %+v
// contain the entries of every one of its branches, also when two branches
// hold equal content or the very same object: each message token occurs in
// the entries of the node at least as often as in the entries of all its
// branches (rendered on their own) together.
func verboseCountsBranches(res *Result, nodes []obs.Node, where string) {
	entries := func(e error) string {
		v := obs.Fmt("%+v", e)
		if obs.IsPanic(v) {
			return ""
		}
		if i := strings.IndexByte(v, '\n'); i >= 0 {
			return v[i+1:]
		}
		return ""
	}
	for _, n := range nodes {
		if n.Multi < 2 {
			continue
		}
		whole := entries(n.Err)
		if whole == "" {
			continue
		}
		need := map[string]int{}
		for _, br := range errbase.UnwrapMulti(n.Err) {
			be := entries(br)
			for _, tok := range tokenRE.FindAllString(be, -1) {
				need[tok]++
			}
		}
		var toks []string
		for tok := range need {
			toks = append(toks, tok)
		}
		sort.Strings(toks)
		for _, tok := range toks {
			if have := strings.Count(whole, tok); have < need[tok] {
				res.add(Violation{Prop: "C13", Oracle: "verbose-shows-every-branch", Culprit: typeOfLayer(n),
					Expected: fmt.Sprintf("token %s at least %d times in the entries of %%+v", tok, need[tok]), Observed: fmt.Sprintf("%d times: %s", have, short(whole)), Where: where + " node " + n.Path})
				break
			}
		}
	}
}

// structuralDecoded runs the tree-semantics checks on a decoded value. The
// self-match model cannot see explicit marks inside decoded Mark wrappers,
// but a multi-cause node is never itself a Mark wrapper, and references are
// origin-local objects whose explicit marks are irrelevant for MarkOf(M).
func structuralDecoded(res *Result, nodes []obs.Node, refs []Ref, refErrs []error, where string) {
	for _, n := range nodes {
		if n.Multi == 0 {
			continue
		}
		M := n.Err
		if errors.Unwrap(M) != nil || errors.UnwrapOnce(M) != nil {
			res.add(Violation{Prop: "C13", Oracle: "multi-is-leaf-for-unwrap", Culprit: typeOfLayer(n), Expected: "nil", Observed: "non-nil", Where: where})
		}
		branches := errbase.UnwrapMulti(M)
		for ri, r := range refErrs {
			if _, isMark := r.(interface{ Unwrap() error }); isMark && strings.Contains(fmt.Sprintf("%T", r), "withMark") {
				continue
			}
			got := obs.IsOne(M, r)
			exp := byte('F')
			func() {
				defer func() { recover() }()
				if x, ok := M.(interface{ Is(error) bool }); ok && x.Is(r) {
					exp = 'T'
				}
				if model.MarkOf(M, nil).Equal(model.MarkOf(r, nil)) {
					exp = 'T'
				}
			}()
			for _, br := range branches {
				if obs.IsOne(br, r) == 'T' {
					exp = 'T'
				}
			}
			if got != exp && got != 'P' {
				res.add(Violation{Prop: "C13", Oracle: "is-tree-semantics", Culprit: typeOfLayer(n) + ":" + string(exp) + "->" + string(got),
					Expected: string(exp), Observed: string(got), Where: where + " node " + n.Path + " ref=" + refs[ri].Name})
			}
		}
	}
	root := nodes[0].Err
	for _, tg := range asTargets {
		expIdx := -1
		for i, n := range nodes {
			if reflect.TypeOf(n.Err).AssignableTo(tg.typ) {
				expIdx = i
				break
			}
		}
		target := tg.mk()
		ok := false
		if p := obs.S(func() string { ok = errors.As(root, target); return "" }); p != "" {
			res.add(Violation{Prop: "C13", Oracle: "as-panics", Culprit: tg.name, Expected: "no panic", Observed: p, Where: where})
			continue
		}
		if ok != (expIdx >= 0) {
			res.add(Violation{Prop: "C13", Oracle: "as-found", Culprit: tg.name, Expected: fmt.Sprint(expIdx >= 0), Observed: fmt.Sprint(ok), Where: where})
			continue
		}
		if ok && !sameValue(reflect.ValueOf(target).Elem().Interface(), interface{}(nodes[expIdx].Err)) {
			res.add(Violation{Prop: "C13", Oracle: "as-first-match-in-branch-order", Culprit: tg.name,
				Expected: fmt.Sprintf("node %d (%s)", expIdx, nodes[expIdx].Path), Observed: "another node", Where: where})
		}
	}
}
