package props

import (
	"context"
	goerrors "errors"
	"fmt"
	"os"
	"reflect"
	"regexp"
	"strings"

	"errsim/gen"
	"errsim/obs"
	"errsim/tape"
	"errsim/world"

	"github.com/cockroachdb/errors"
	"github.com/cockroachdb/errors/errbase"
	"github.com/cockroachdb/errors/errorspb"
	"github.com/gogo/protobuf/proto"
)

// C17 — type renames do not break cross-version identity.
type c17 struct{}

func init() { register(c17{}) }

func (c17) ID() string { return "C17" }

func (c17) Rule() string {
	return "code versions are registry sets built with hook H1: v0 never knew the type, v1 has foo, v2 renamed foo->bar, vB renamed foo->qux, v3 foo->bar->baz, v4 foo->bar->baz->zed " +
		"(chained renames registered in every permutation, decoders registered afterwards); part 1 (exhaustive): sender x optional intermediary x receiver x form {leaf by value, leaf by pointer, " +
		"wrapper} x registration permutation on two fixed carriers; part 2 (seeded): 1..3 hops, the renamed node at a drawn position of a generated carrier tree, a second differently-versioned " +
		"sender for the third-party comparison; oracles: the wire family name leaving any version is foo's key, GetTypeKey of the newest name is foo's key for every permutation, a message decodes " +
		"to the receiver's own current type (v0: opaque, re-encoded verbatim), Is(received, locally built equivalent) holds, copies from different senders are Is-equal both ways at every " +
		"receiver, registering a second migration to the same type panics (also when it repeats the first or names another name of the same chain); at v2 also: renames changing the receiver kind, " +
		"a renamed multi-cause type with its decoder, a typed nil pointer of a renamed type, a renamed protobuf-message type; at every version: the library's own os.PathError rename, a pure package move; distinct = (versions on the route x form x permutation x carrier shape); non-trivial = route has >= 1 hop"
}

// ---- code versions ----------------------------------------------------------

const (
	v0  = iota // never knew the type
	v1         // foo
	v2         // foo -> bar
	vB         // foo -> qux
	v3         // foo -> bar -> baz
	v4         // foo -> bar -> baz -> zed
	v2n        // foo -> bar, rename registered but no decoder: received errors stay opaque
	numVersions
)

var versionNames = []string{"v0(unknowing)", "v1(foo)", "v2(foo>bar)", "vB(foo>qux)", "v3(foo>bar>baz)", "v4(foo>bar>baz>zed)", "v2n(foo>bar,no-decoder)"}

// current type name of each version (-1: none)
var versionName = []int{-1, gen.MigFoo, gen.MigBar, gen.MigQux, gen.MigBaz, gen.MigZed, gen.MigBar}

// rename chain of each version as (from, to) pairs
var versionChain = [][][2]int{
	nil, nil,
	{{gen.MigFoo, gen.MigBar}},
	{{gen.MigFoo, gen.MigQux}},
	{{gen.MigFoo, gen.MigBar}, {gen.MigBar, gen.MigBaz}},
	{{gen.MigFoo, gen.MigBar}, {gen.MigBar, gen.MigBaz}, {gen.MigBaz, gen.MigZed}},
	{{gen.MigFoo, gen.MigBar}},
}

var perms3 = [][]int{{0, 1, 2}, {0, 2, 1}, {1, 0, 2}, {1, 2, 0}, {2, 0, 1}, {2, 1, 0}}

const numPerms = 6

func permOf(n, idx int) []int {
	switch n {
	case 0, 1:
		return []int{0}[:n]
	case 2:
		if idx%2 == 0 {
			return []int{0, 1}
		}
		return []int{1, 0}
	}
	return perms3[idx%6]
}

type migProfile struct {
	prof *world.Profile
	// problems found while building (registration-time oracles)
	problems []Violation
}

var migCache = map[[2]int]*migProfile{}

func fooKey(form int) string { return gen.MigPkgPath + "/" + gen.MigTypeName(gen.MigFoo, form) }

// buildVersion builds the registry set of a code version with its chained
// renames registered in the order given by perm.
func buildVersion(v, perm int) *migProfile {
	// perm >= numPerms: the same permutation, with a (read-only) GetTypeKey
	// lookup of the target type between registrations, as a program does
	// that registers each type's decoder right after its migration
	probe := perm >= numPerms
	if mp, ok := migCache[[2]int{v, perm}]; ok {
		return mp
	}
	mp := &migProfile{}
	errbase.VerifInstallRegistries(world.Base)
	chain := versionChain[v]
	order := permOf(len(chain), perm)
	orderDesc := ""
	for _, i := range order {
		orderDesc += fmt.Sprintf("%s>%s,", gen.MigNames[chain[i][0]], gen.MigNames[chain[i][1]])
	}
	for form := 0; form < gen.NumForms; form++ {
		for _, i := range order {
			from, to := chain[i][0], chain[i][1]
			if p := obs.S(func() string {
				errors.RegisterTypeMigration(gen.MigPkgPath, gen.MigTypeName(from, form), gen.MigNew(to, form, "", errProbe))
				return ""
			}); p != "" {
				mp.problems = append(mp.problems, Violation{Prop: "C17", Oracle: "chain-registers-in-any-order", Culprit: "RegisterTypeMigration", Config: "order=[" + orderDesc + "]",
					Expected: "accepted", Observed: short(p), Where: versionNames[v] + " " + gen.FormNames[form]})
			}
			if probe {
				_ = errors.GetTypeKey(gen.MigNew(to, form, "", errProbe))
				_ = errors.GetTypeKey(gen.MigNew(versionName[v], form, "", errProbe))
			}
		}
		if versionName[v] < 0 {
			continue
		}
		cur := versionName[v]
		newest := gen.MigNew(cur, form, "", errProbe)
		key := errors.GetTypeKey(newest)
		if string(key) != fooKey(form) {
			mp.problems = append(mp.problems, Violation{Prop: "C17", Oracle: "key-of-newest-name", Culprit: "RegisterTypeMigration", Config: "order=[" + orderDesc + "]",
				Expected: fooKey(form), Observed: string(key), Where: versionNames[v] + " " + gen.FormNames[form]})
		}
		// decoders are registered after the migrations, as the documentation requires
		form, cur := form, cur
		switch {
		case v == v2n:
			// knows the rename and creates such values (so the pointer form's
			// encoder is there) but registers no decoder: received values stay opaque
			if form == gen.FormPtr {
				errors.RegisterLeafEncoder(key, func(_ context.Context, err error) (string, []string, proto.Message) {
					return err.Error(), nil, &errorspb.StringsPayload{Details: []string{err.Error(), fmt.Sprint(gen.MigCode(err))}}
				})
			}
		case form == gen.FormWrap:
			errors.RegisterWrapperDecoder(key, func(_ context.Context, cause error, prefix string, _ []string, _ proto.Message) error {
				return gen.MigNew(cur, form, prefix, cause)
			})
		case form == gen.FormPtr:
			// this form carries a field that is not part of the message: it
			// needs its custom encoder (registered under the same key) and payload
			errors.RegisterLeafEncoder(key, func(_ context.Context, err error) (string, []string, proto.Message) {
				return err.Error(), nil, &errorspb.StringsPayload{Details: []string{err.Error(), fmt.Sprint(gen.MigCode(err))}}
			})
			errors.RegisterLeafDecoder(key, func(_ context.Context, _ string, _ []string, payload proto.Message) error {
				m, ok := payload.(*errorspb.StringsPayload)
				if !ok || len(m.Details) < 2 {
					return nil
				}
				var code int
				fmt.Sscan(m.Details[1], &code)
				return gen.MigNewP(cur, m.Details[0], code)
			})
		default:
			errors.RegisterLeafDecoder(key, func(_ context.Context, msg string, _ []string, _ proto.Message) error {
				return gen.MigNew(cur, form, msg, nil)
			})
		}
		// registering a second migration to the same (already migrated) type is rejected
		if len(chain) > 0 {
			last := chain[len(chain)-1]
			p := obs.S(func() string {
				errors.RegisterTypeMigration(gen.MigPkgPath, gen.MigTypeName(last[0], form)+"Other", gen.MigNew(last[1], form, "", errProbe))
				return ""
			})
			if p == "" {
				mp.problems = append(mp.problems, Violation{Prop: "C17", Oracle: "duplicate-target-rejected", Culprit: "RegisterTypeMigration",
					Expected: "panic", Observed: "accepted", Where: versionNames[v] + " " + gen.FormNames[form]})
				// undo is not possible through the API; rebuild below
			}
			// ... also when the second declaration repeats the first one, or
			// names another (earlier) name of the same chain
			for _, from := range []int{last[0], chain[0][0]} {
				from := from
				p := obs.S(func() string {
					errors.RegisterTypeMigration(gen.MigPkgPath, gen.MigTypeName(from, form), gen.MigNew(last[1], form, "", errProbe))
					return ""
				})
				if p == "" {
					mp.problems = append(mp.problems, Violation{Prop: "C17", Oracle: "duplicate-target-rejected", Culprit: "RegisterTypeMigration", Config: "same chain",
						Expected: "panic", Observed: "accepted", Where: versionNames[v] + " " + gen.FormNames[form] + " second declaration from " + gen.MigNames[from]})
				}
			}
		}
	}
	// a renamed error type that is itself a protobuf message: no decoder, the
	// payload is the error. Checked right here under this version's
	// registries: key, wire family, and a loop-back transfer.
	if v == v2 {
		errors.RegisterTypeMigration(gen.MigPkgPath, "*gen.FooProto", &gen.BarProto{})
		pe := &gen.BarProto{Msg: "TKUprotoQ"}
		wantKey := gen.MigPkgPath + "/*gen.FooProto"
		if k := errors.GetTypeKey(pe); string(k) != wantKey {
			mp.problems = append(mp.problems, Violation{Prop: "C17", Oracle: "key-of-newest-name", Culprit: "RegisterTypeMigration", Config: "proto-message type",
				Expected: wantKey, Observed: string(k), Where: versionNames[v]})
		}
		if data, p := obs.Encode(pe); p == "" {
			if enc, err := world.ParseWire(data); err == nil && enc.GetLeaf() != nil && enc.GetLeaf().Details.ErrorTypeMark.FamilyName != wantKey {
				mp.problems = append(mp.problems, Violation{Prop: "C17", Oracle: "wire-family-is-original-name", Culprit: "encoder", Config: "form=proto-message",
					Expected: wantKey, Observed: enc.GetLeaf().Details.ErrorTypeMark.FamilyName, Where: versionNames[v]})
			}
			dec, p2 := obs.Decode(data)
			if _, ok := dec.(*gen.BarProto); !ok || p2 != "" {
				mp.problems = append(mp.problems, Violation{Prop: "C17", Oracle: "decodes-to-current-type", Culprit: "decoder", Config: "receiver=" + versionNames[v] + " form=proto-message",
					Expected: "*gen.BarProto", Observed: fmt.Sprintf("%T %s", dec, p2), Where: "loop-back transfer at " + versionNames[v]})
			} else if obs.IsOne(dec, pe) != 'T' || obs.IsOne(pe, dec) != 'T' {
				mp.problems = append(mp.problems, Violation{Prop: "C17", Oracle: "is-locally-built-equivalent", Culprit: "identity", Config: "receiver=" + versionNames[v] + " form=proto-message",
					Expected: "TT", Observed: "not both", Where: "loop-back transfer at " + versionNames[v]})
			}
		}
	}
	// renames that change the receiver kind, and a renamed multi-cause type
	// with its own decoder: key, wire family and loop-back transfer
	if v == v2 {
		errors.RegisterTypeMigration(gen.MigPkgPath, "*gen.XFooP", gen.XBarV{})
		errors.RegisterTypeMigration(gen.MigPkgPath, "gen.XFooV", &gen.XBarP{})
		errors.RegisterTypeMigration(gen.MigPkgPath, "*gen.FooMulti", &gen.BarMulti{})
		errors.RegisterTypeMigration("io/fs", "*fs.PathError", &gen.XPathErr{})
		if k := errors.GetTypeKey(&gen.XPathErr{}); string(k) != "os/*os.PathError" {
			mp.problems = append(mp.problems, Violation{Prop: "C17", Oracle: "key-of-newest-name", Culprit: "RegisterTypeMigration", Config: "form=rename-of-builtin-rename",
				Expected: "os/*os.PathError", Observed: string(k), Where: versionNames[v]})
		}
		errors.RegisterTypeMigration(gen.MigPkgPath, "gen.XOldCode", gen.XCode(0))
		errors.RegisterLeafDecoder(errors.GetTypeKey(gen.XCode(0)), func(_ context.Context, msg string, _ []string, _ proto.Message) error {
			var n int
			fmt.Sscanf(msg, "TKUcodeQ %d", &n)
			return gen.XCode(n)
		})
		errors.RegisterTypeMigration(gen.MigPkgPath, "*gen.GFoo[int]", &gen.GBar[int]{})
		errors.RegisterLeafDecoder(errors.GetTypeKey(&gen.GBar[int]{}), func(_ context.Context, msg string, _ []string, _ proto.Message) error {
			return &gen.GBar[int]{Msg: msg}
		})
		errors.RegisterTypeMigration(gen.MigPkgPath, "*gen.XNilFoo", (*gen.XNilBar)(nil))
		errors.RegisterLeafDecoder(errors.GetTypeKey((*gen.XNilBar)(nil)), func(_ context.Context, msg string, _ []string, _ proto.Message) error {
			if msg == (*gen.XNilBar)(nil).Error() {
				return (*gen.XNilBar)(nil)
			}
			return &gen.XNilBar{Msg: msg}
		})
		errors.RegisterLeafDecoder(errors.GetTypeKey(gen.XBarV{}), func(_ context.Context, msg string, _ []string, _ proto.Message) error { return gen.XBarV{Msg: msg} })
		errors.RegisterLeafDecoder(errors.GetTypeKey(&gen.XBarP{}), func(_ context.Context, msg string, _ []string, _ proto.Message) error { return &gen.XBarP{Msg: msg} })
		errors.RegisterMultiCauseDecoder(errors.GetTypeKey(&gen.BarMulti{}), func(_ context.Context, causes []error, msg string, _ []string, _ proto.Message) error {
			return &gen.BarMulti{Msg: msg, Errs: causes}
		})
		for _, sc := range []struct {
			label, wantKey string
			mk             func() error
		}{
			{"pointer-to-value", gen.MigPkgPath + "/*gen.XFooP", func() error { return gen.XBarV{Msg: "TKUxvQ"} }},
			{"value-to-pointer", gen.MigPkgPath + "/gen.XFooV", func() error { return &gen.XBarP{Msg: "TKUxpQ"} }},
			{"basic-kind", gen.MigPkgPath + "/gen.XOldCode", func() error { return gen.XCode(7) }},
			{"generic-instantiation", gen.MigPkgPath + "/*gen.GFoo[int]", func() error { return &gen.GBar[int]{Msg: "TKUgenQ"} }},
			{"typed-nil-pointer", gen.MigPkgPath + "/*gen.XNilFoo", func() error { return (*gen.XNilBar)(nil) }},
			{"nil-safe-type", gen.MigPkgPath + "/*gen.XNilFoo", func() error { return &gen.XNilBar{Msg: "TKUxnQ"} }},
			{"multi-cause", gen.MigPkgPath + "/*gen.FooMulti", func() error {
				return &gen.BarMulti{Msg: "TKUmultiQ", Errs: []error{errors.New("TKSb1Q"), goerrors.New("TKUb2Q")}}
			}},
		} {
			pe := sc.mk()
			cfgs := "form=" + sc.label
			if k := errors.GetTypeKey(pe); string(k) != sc.wantKey {
				mp.problems = append(mp.problems, Violation{Prop: "C17", Oracle: "key-of-newest-name", Culprit: "RegisterTypeMigration", Config: cfgs,
					Expected: sc.wantKey, Observed: string(k), Where: versionNames[v]})
			}
			data, p := obs.Encode(pe)
			if p != "" {
				mp.problems = append(mp.problems, Violation{Prop: "C17", Oracle: "encode-at-sender", Culprit: obs.PanicSite(p), Config: cfgs, Expected: "no panic", Observed: short(p), Where: versionNames[v]})
				continue
			}
			if enc, err := world.ParseWire(data); err == nil && enc.GetLeaf() != nil && enc.GetLeaf().Details.ErrorTypeMark.FamilyName != sc.wantKey {
				mp.problems = append(mp.problems, Violation{Prop: "C17", Oracle: "wire-family-is-original-name", Culprit: "encoder", Config: cfgs,
					Expected: sc.wantKey, Observed: enc.GetLeaf().Details.ErrorTypeMark.FamilyName, Where: versionNames[v]})
			}
			dec, p2 := obs.Decode(data)
			if a, b := fmt.Sprintf("%T", pe), fmt.Sprintf("%T", dec); a != b || p2 != "" {
				mp.problems = append(mp.problems, Violation{Prop: "C17", Oracle: "decodes-to-current-type", Culprit: "decoder", Config: "receiver=" + versionNames[v] + " " + cfgs,
					Expected: a, Observed: b + " " + short(p2), Where: "loop-back transfer at " + versionNames[v]})
			} else if obs.IsOne(dec, pe) != 'T' || obs.IsOne(pe, dec) != 'T' {
				mp.problems = append(mp.problems, Violation{Prop: "C17", Oracle: "is-locally-built-equivalent", Culprit: "identity", Config: "receiver=" + versionNames[v] + " " + cfgs,
					Expected: "TT", Observed: "not both", Where: "loop-back transfer at " + versionNames[v]})
			} else if m, ok := dec.(*gen.BarMulti); ok && len(m.Errs) != 2 {
				mp.problems = append(mp.problems, Violation{Prop: "C17", Oracle: "decodes-to-current-type", Culprit: "decoder", Config: "receiver=" + versionNames[v] + " " + cfgs,
					Expected: "2 branches", Observed: fmt.Sprint(len(m.Errs)), Where: "loop-back transfer at " + versionNames[v]})
			}
		}
	}
	// old code that has the generic type under its original name: what new
	// code sends (the original name, as reflection prints it) must find the
	// decoder that old code registered for its own type
	if v == v1 {
		errors.RegisterLeafDecoder(errors.GetTypeKey(&gen.GFoo[int]{}), func(_ context.Context, msg string, _ []string, _ proto.Message) error {
			return &gen.GFoo[int]{Msg: msg}
		})
		fam := gen.MigPkgPath + "/" + reflect.TypeOf(&gen.GFoo[int]{}).String()
		leaf := leafNode(fam, "TKUgenQ", nil, nil, nil)
		if data, err := leaf.Marshal(); err == nil {
			dec, p2 := obs.Decode(data)
			if _, ok := dec.(*gen.GFoo[int]); !ok || p2 != "" {
				mp.problems = append(mp.problems, Violation{Prop: "C17", Oracle: "decodes-to-current-type", Culprit: "decoder", Config: "receiver=" + versionNames[v] + " form=generic-instantiation",
					Expected: "*gen.GFoo[int]", Observed: fmt.Sprintf("%T %s", dec, short(p2)), Where: "message from new code (" + fam + ") at " + versionNames[v]})
			}
		}
	}
	// the library's own declared rename (os.PathError became io/fs.PathError
	// in Go 1.16): a PathError travels under the name old programs know, and
	// one arriving under that name becomes the current type
	{
		const oldKey = "os/*os.PathError"
		pe := &os.PathError{Op: "open", Path: "TKUpathQ", Err: goerrors.New("TKUpeQ")}
		if k := errors.GetTypeKey(pe); string(k) != oldKey {
			mp.problems = append(mp.problems, Violation{Prop: "C17", Oracle: "key-of-newest-name", Culprit: "RegisterTypeMigration", Config: "form=os.PathError",
				Expected: oldKey, Observed: string(k), Where: versionNames[v]})
		}
		if data, p := obs.Encode(pe); p == "" {
			enc, err := world.ParseWire(data)
			if err == nil && enc.GetWrapper() != nil {
				if fam := enc.GetWrapper().Details.ErrorTypeMark.FamilyName; fam != oldKey {
					mp.problems = append(mp.problems, Violation{Prop: "C17", Oracle: "wire-family-is-original-name", Culprit: "encoder", Config: "form=os.PathError",
						Expected: oldKey, Observed: fam, Where: versionNames[v]})
				}
				// as sent by a program built before the rename
				enc.GetWrapper().Details.OriginalTypeName = oldKey
				enc.GetWrapper().Details.ErrorTypeMark.FamilyName = oldKey
				if old, merr := enc.Marshal(); merr == nil {
					dec, p2 := obs.Decode(old)
					if _, ok := dec.(*os.PathError); !ok || p2 != "" {
						mp.problems = append(mp.problems, Violation{Prop: "C17", Oracle: "decodes-to-current-type", Culprit: "decoder", Config: "receiver=" + versionNames[v] + " form=os.PathError",
							Expected: "*fs.PathError", Observed: fmt.Sprintf("%T %s", dec, short(p2)), Where: "message from a pre-rename sender at " + versionNames[v]})
					} else if obs.IsOne(dec, pe) != 'T' || obs.IsOne(pe, dec) != 'T' {
						mp.problems = append(mp.problems, Violation{Prop: "C17", Oracle: "is-locally-built-equivalent", Culprit: "identity", Config: "receiver=" + versionNames[v] + " form=os.PathError",
							Expected: "TT", Observed: "not both", Where: "message from a pre-rename sender at " + versionNames[v]})
					}
				}
			}
		}
	}
	// a pure package move: same type string, different import path
	if v != v0 {
		errors.RegisterTypeMigration("errsim/elsewhere", "gen.MovedLeaf", gen.MovedLeaf{})
		if k := errors.GetTypeKey(gen.MovedLeaf{}); string(k) != "errsim/elsewhere/gen.MovedLeaf" {
			mp.problems = append(mp.problems, Violation{Prop: "C17", Oracle: "key-of-moved-type", Culprit: "RegisterTypeMigration",
				Expected: "errsim/elsewhere/gen.MovedLeaf", Observed: string(k), Where: versionNames[v]})
		}
		if p := obs.S(func() string {
			errors.RegisterTypeMigration("errsim/elsewhere2", "gen.MovedLeaf", gen.MovedLeaf{})
			return ""
		}); p == "" {
			mp.problems = append(mp.problems, Violation{Prop: "C17", Oracle: "duplicate-target-rejected", Culprit: "RegisterTypeMigration",
				Expected: "panic", Observed: "accepted", Where: versionNames[v] + " moved type"})
		}
	}
	name := versionNames[v]
	if len(chain) > 1 {
		name += "[" + orderDesc + "]"
	}
	if probe {
		name += "+probes"
	}
	mp.prof = &world.Profile{Name: name, Reg: errbase.VerifSnapshotRegistries(), Unknown: map[string]bool{}}
	if v == v0 {
		for form := 0; form < gen.NumForms; form++ {
			mp.prof.Unknown[fooKey(form)] = true
		}
	}
	errbase.VerifInstallRegistries(world.Base)
	migCache[[2]int{v, perm}] = mp
	return mp
}

var errProbe = fmt.Errorf("probe")

// EnumSize: sender(5) x intermediary(none + 6) x receiver(6) x form(3) x perm(6) x carrier(2)
func (c17) EnumSize(tier Tier) int { return 6 * 8 * 7 * 3 * (2 * numPerms) * 2 }

func (c17) TapeFor(i int, tier Tier) []uint32 {
	vals := []uint32{1}
	for _, r := range []int{6, 8, 7, 3, 2 * numPerms, 2} {
		vals = append(vals, uint32(i%r))
		i /= r
	}
	return vals
}

var migTypeRE = regexp.MustCompile(`gen\.(Foo|Bar|Qux|Baz|Zed)(Leaf|LeafP|Wrap)$`)

func isMigType(goType string) bool { return migTypeRE.MatchString(goType) }

func (p c17) Run(t *tape.Tape, tier Tier) *Result {
	res := &Result{}
	enumerated := t.Draw(8) == 1
	var sender, mid, receiver, form, perm, carrier int
	var mids []int
	var spec *gen.Node
	var g *gen.Gen
	if enumerated {
		sender = 1 + t.Draw(6)
		mid = t.Draw(8) - 1
		receiver = t.Draw(7)
		form = t.Draw(3)
		perm = t.Draw(2 * numPerms)
		carrier = t.Draw(2)
		if mid >= 0 {
			mids = []int{mid}
		}
	} else {
		sender = 1 + t.Draw(6)
		for i := t.Draw(3); i > 0; i-- {
			mids = append(mids, t.Draw(numVersions))
		}
		receiver = t.Draw(numVersions)
		form = t.Draw(3)
		perm = t.Draw(2 * numPerms)
		carrier = 2
	}
	// the node under test
	var mig *gen.Node
	if form == gen.FormWrap {
		mig = &gen.Node{K: gen.WMig, S: []gen.Str{{V: "TKUmigQ wrapped", Tok: "TKUmigQ"}}, Kids: []*gen.Node{{K: gen.LNew, S: []gen.Str{{V: "TKSinnerQ", Tok: "TKSinnerQ", Safe: true}}}}}
	} else {
		mig = &gen.Node{K: gen.LMig, S: []gen.Str{{V: "TKUmigQ leaf", Tok: "TKUmigQ"}}, N: []int{form}}
	}
	switch carrier {
	case 0:
		spec = mig
	case 1:
		spec = &gen.Node{K: gen.WWrap, S: []gen.Str{{V: "TKSouterQ", Tok: "TKSouterQ", Safe: true}}, Kids: []*gen.Node{mig}}
	default:
		// a generated carrier with the node grafted at a drawn position
		g = gen.New(t, gen.Config{Alpha: gen.Regular, Swarm: true, MaxDepth: 5, MaxNodes: 10,
			Allow: func(k gen.Kind) bool { return k != gen.WOpErr }})
		spec = g.Tree()
		var slots []**gen.Node
		var collect func(pp **gen.Node)
		collect = func(pp **gen.Node) {
			n := *pp
			if len(n.Kids) == 0 && len(n.Hid) == 0 {
				slots = append(slots, pp)
			}
			for i := range n.Kids {
				collect(&n.Kids[i])
			}
		}
		collect(&spec)
		if len(slots) == 0 {
			slots = []**gen.Node{&spec}
		}
		*slots[t.Draw(len(slots))] = mig
	}
	res.Kinds = kindsOf(spec)
	// ---- cluster: process 0 = sender, then intermediaries, receiver, second sender
	sim := world.NewSim(t)
	var versions []int
	add := func(v int) *world.Process {
		mp := buildVersion(v, perm)
		for _, pr := range mp.problems {
			res.add(pr)
		}
		versions = append(versions, v)
		return sim.AddProcess(mp.prof)
	}
	add(sender)
	route := []int{}
	for _, m := range mids {
		route = append(route, add(m).ID)
	}
	rcv := add(receiver)
	route = append(route, rcv.ID)
	// a second sender running another version with the type, for the third-party comparison
	sender2 := 1 + (sender+t.Draw(5))%6
	s2 := add(sender2)
	res.Desc.Tree = fmt.Sprintf("%s [form=%s]", spec.Expr(), gen.FormNames[form])
	res.Desc.Cluster = clusterDesc(sim)
	res.Desc.Routes = []string{routeString(append([]int{0}, route...)), routeString([]int{s2.ID, rcv.ID})}
	buildAt := func(proc int) error {
		sim.At(proc)
		gen.MigBuildName = versionName[versions[proc]]
		return gen.Build(spec)
	}
	e0 := buildAt(0)
	m1, p1 := obs.Encode(e0)
	if p1 != "" {
		res.add(Violation{Prop: "C17", Oracle: "encode-at-sender", Culprit: obs.PanicSite(p1), Expected: "no panic", Observed: short(p1)})
		return res
	}
	e2 := buildAt(s2.ID)
	m2, _ := obs.Encode(e2)
	// path of the node under test in the visible tree
	migPath := ""
	for _, n := range obs.Tree(e0, false) {
		if isMigType(n.GoType) {
			migPath = n.Path
		}
	}
	wantKey := fooKey(form)
	checkWire := func(data []byte, where string) {
		enc, err := world.ParseWire(data)
		if err != nil {
			return
		}
		world.WalkWire(enc, false, func(w *world.WireNode) {
			if w.Path == migPath && w.Family() != wantKey {
				res.add(Violation{Prop: "C17", Oracle: "wire-family-is-original-name", Culprit: "encoder", Config: "form=" + gen.FormNames[form],
					Expected: wantKey, Observed: w.Family(), Where: where})
			}
		})
	}
	checkWire(m1, "leaving sender "+versionNames[sender])
	checkWire(m2, "leaving second sender "+versionNames[sender2])
	sim.DupNum = 0
	sim.At(0)
	sim.Send(0, 1, []int{0}, route, m1)
	sim.Send(1, 1, []int{s2.ID}, []int{rcv.ID}, m2)
	var atReceiver [2]error
	sim.OnDeliver = func(d *world.Delivery) {
		v := versions[d.Proc.ID]
		where := fmt.Sprintf("flow %d hop %d at process %d %s via %s", d.Msg.Flow, d.Msg.Hop, d.Proc.ID, d.Proc.Prof.Name, routeString(d.Msg.Path))
		if d.Panic != "" || d.RePanic != "" {
			res.add(Violation{Prop: "C17", Oracle: "transfer", Culprit: obs.PanicSite(d.Panic + d.RePanic), Expected: "no panic", Observed: short(d.Panic + d.RePanic), Where: where})
			return
		}
		// the node decodes to the receiver's own current type
		for _, n := range obs.Tree(d.Err, false) {
			if n.Path != migPath {
				continue
			}
			if v == v0 || v == v2n {
				if !strings.Contains(n.GoType, "errbase.opaque") {
					res.add(Violation{Prop: "C17", Oracle: "unknowing-keeps-opaque", Culprit: "decoder", Expected: "opaque", Observed: n.GoType, Where: where})
				}
			} else {
				exp := fmt.Sprintf("%T", gen.MigNew(versionName[v], form, "", errProbe))
				if n.GoType == exp && form == gen.FormPtr && gen.MigCode(n.Err) != 7 {
					res.add(Violation{Prop: "C17", Oracle: "payload-of-renamed-type", Culprit: "encoder", Config: "receiver=" + versionNames[v],
						Expected: "code 7", Observed: fmt.Sprint("code ", gen.MigCode(n.Err)), Where: where})
				}
				if n.GoType != exp {
					res.add(Violation{Prop: "C17", Oracle: "decodes-to-current-type", Culprit: "decoder", Config: "receiver=" + versionNames[v] + " form=" + gen.FormNames[form],
						Expected: exp, Observed: n.GoType, Where: where})
				}
			}
		}
		checkWire(d.ReData, "leaving "+d.Proc.Prof.Name)
		// where the type is opaque (v0, v2n) the node is forwarded verbatim,
		// original type name included
		if v == v0 || v == v2n {
			var in, out *world.WireNode
			if e1, err := world.ParseWire(d.Msg.Data); err == nil {
				world.WalkWire(e1, false, func(w *world.WireNode) {
					if w.Path == migPath {
						in = w
					}
				})
			}
			if e2, err := world.ParseWire(d.ReData); err == nil {
				world.WalkWire(e2, false, func(w *world.WireNode) {
					if w.Path == migPath {
						out = w
					}
				})
			}
			if in != nil && out != nil {
				a, _ := in.Details().Marshal()
				b, _ := out.Details().Marshal()
				if in.Message() != out.Message() || string(a) != string(b) {
					res.add(Violation{Prop: "C17", Oracle: "opaque-forwarded-verbatim", Culprit: "encoder", Config: "at=" + versionNames[v],
						Expected: fmt.Sprintf("%q %s", in.Message(), in.Details().OriginalTypeName), Observed: fmt.Sprintf("%q %s", out.Message(), out.Details().OriginalTypeName), Where: where})
				}
			}
		}
		// Is(received, locally built equivalent)
		if v != v0 {
			gen.MigBuildName = versionName[v]
			local := gen.Build(spec)
			if a, b := obs.IsOne(d.Err, local), obs.IsOne(local, d.Err); a != 'T' || b != 'T' {
				res.add(Violation{Prop: "C17", Oracle: "is-locally-built-equivalent", Culprit: "identity", Config: "receiver=" + versionNames[v] + " form=" + gen.FormNames[form],
					Expected: "TT", Observed: string([]byte{a, b}), Where: where})
			}
		}
		if d.Proc.ID == rcv.ID {
			atReceiver[d.Msg.Flow] = d.Err
			if atReceiver[0] != nil && atReceiver[1] != nil {
				a, b := obs.IsOne(atReceiver[0], atReceiver[1]), obs.IsOne(atReceiver[1], atReceiver[0])
				sim.Logf("third-party %c%c", a, b)
				if a != 'T' || b != 'T' {
					res.add(Violation{Prop: "C17", Oracle: "copies-from-different-versions-equal", Culprit: "identity",
						Config:   "receiver=" + versionNames[v] + " form=" + gen.FormNames[form],
						Expected: "TT", Observed: string([]byte{a, b}), Where: fmt.Sprintf("receiver %s compares copies from %s and %s", versionNames[v], versionNames[sender], versionNames[sender2])})
				}
			}
		}
	}
	sim.Run()
	errbase.VerifInstallRegistries(world.Base)
	gen.MigBuildName = gen.MigFoo
	res.Stats = sim.Stats
	res.LogDigest = sim.LogDigest()
	res.Nontrivial = true
	vs := ""
	for _, v := range versions {
		vs += fmt.Sprint(v)
	}
	res.Key = fmt.Sprintf("%s|f%d|p%d|%s", vs, form, perm, spec.Shape())
	if enumerated {
		res.count("enumerated", 1)
	} else {
		res.count("seeded", 1)
	}
	return res
}
