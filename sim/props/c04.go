package props

import (
	"bytes"
	"fmt"
	"strings"

	"errsim/gen"
	"errsim/obs"
	"errsim/tape"
	"errsim/world"
)

// C04 — unknown error types pass through a process losslessly.
type c04 struct{}

func init() { register(c04{}) }

func (c04) ID() string { return "C04" }

func (c04) Rule() string {
	return "each run: seeded tree (regular strings), cluster O(full) -> U_1..U_m (m=1..3, each with its own drawn knowledge subset: " +
		"none / single knock-out of a family occurring in the message / only-one-known / random subset) -> K(full), plus the direct control route O -> K; " +
		"1/4 of the runs replay the route at knowing processes with the unknown families (and, half of the time, the type URLs of their payloads) renamed on the wire and demand the same observations; " +
		"distinct = (constructor-shape signature x sequence of knowledge profiles); non-trivial = tree has >= 2 layers and at least one " +
		"family of the message is unknown at some intermediary"
}

// isBarrierOrSecondary reports layers whose safe details embed a rendering of a hidden error.
func isBarrierOrSecondary(typeName string) bool {
	return strings.HasSuffix(typeName, "barriers/*barriers.barrierErr") || strings.HasSuffix(typeName, "secondary/*secondary.withSecondaryError")
}

func (c04) Run(t *tape.Tape, tier Tier) *Result {
	res := &Result{}
	cfg := gen.Config{Alpha: gen.Regular, Swarm: true, MaxDepth: 6, MaxNodes: 14}
	if tier == Thorough {
		cfg.MaxDepth, cfg.MaxNodes = 7, 24
	}
	g := gen.New(t, cfg)
	spec := g.Tree()
	sim := world.NewSim(t)
	sim.AddProcess(world.Full())
	sim.At(0)
	e0 := gen.Build(spec)
	want := obs.Tree(e0, false)
	m1, p := obs.Encode(e0)
	res.Desc.Tree = spec.Expr()
	res.Kinds = kindsOf(spec)
	if p != "" {
		res.add(Violation{Prop: "C04", Oracle: "encode-at-origin", Culprit: typeOfLayer(want[0]), Expected: "no panic", Observed: p})
		return res
	}
	refs := refPool(t, g, &gen.Builder{}, spec, e0, 2)
	var refErrs []error
	for _, r := range refs {
		refErrs = append(refErrs, r.Err)
	}
	fams := familiesOf(m1)
	m := 1 + t.Draw(3)
	profKey := ""
	anyUnknown := false
	for j := 0; j < m; j++ {
		pr := drawUnknowing(t, fams)
		sim.AddProcess(pr)
		profKey += pr.Name + ";"
		for _, f := range fams {
			if !pr.Knows(f) {
				anyUnknown = true
			}
		}
	}
	kFinal := sim.AddProcess(world.Full())
	kCtl := sim.AddProcess(world.Full())
	res.Desc.Cluster = clusterDesc(sim)
	route := []int{}
	for j := 1; j <= m; j++ {
		route = append(route, j)
	}
	route = append(route, kFinal.ID)
	res.Desc.Routes = []string{routeString(append([]int{0}, route...)), routeString([]int{0, kCtl.ID})}
	sim.DupNum = 0 // duplicates are C01's subject
	sim.At(0)
	sim.Send(0, 1, []int{0}, route, m1)
	sim.Send(1, 1, []int{0}, []int{kCtl.ID}, m1)

	type finalObs struct {
		tree     []obs.Node
		isRow    string
		acc      []obs.KV
		plusV    string
		v        string
		ok       bool
		typeName string
	}
	var fin, ctl finalObs
	type uObs struct {
		shape string
		texts []string
		types []string
	}
	h1At := map[int]uObs{} // hop -> observation at that intermediary under H1
	obsOf := func(e error) uObs {
		var o uObs
		nodes := obs.Tree(e, false)
		o.shape = obs.Shape(nodes)
		for _, n := range nodes {
			o.texts = append(o.texts, n.Text)
			o.types = append(o.types, n.GoType)
		}
		return o
	}
	observeFinal := func(d *world.Delivery) finalObs {
		return finalObs{tree: obs.Tree(d.Err, true), isRow: obs.IsRow(d.Err, refErrs), acc: obs.Accessors(d.Err),
			plusV: obs.Fmt("%+v", d.Err), v: obs.Fmt("%v", d.Err), ok: true}
	}
	sim.OnDeliver = func(d *world.Delivery) {
		where := fmt.Sprintf("hop %d at process %d (%s) via %s", d.Msg.Hop, d.Proc.ID, d.Proc.Prof.Name, routeString(d.Msg.Path))
		if d.Panic != "" {
			res.add(Violation{Prop: "C04", Oracle: "decode", Culprit: typeOfLayer(want[0]), Config: cfgOf(d), Expected: "decoded error", Observed: d.Panic, Where: where})
			return
		}
		if d.RePanic != "" {
			res.add(Violation{Prop: "C04", Oracle: "re-encode", Culprit: typeOfLayer(want[0]), Config: cfgOf(d), Expected: "no panic", Observed: d.RePanic, Where: where})
			return
		}
		if d.Msg.Flow == 1 {
			ctl = observeFinal(d)
			return
		}
		if d.Proc.ID == kFinal.ID {
			fin = observeFinal(d)
			return
		}
		// ---- at an unknowing intermediary
		h1At[d.Msg.Hop] = obsOf(d.Err)
		got := obs.Tree(d.Err, false)
		sim.Logf("obs %s", obs.Shape(got))
		var wire1 []*world.WireNode
		if encIn, err := world.ParseWire(d.Msg.Data); err == nil {
			world.WalkWire(encIn, false, func(w *world.WireNode) { wire1 = append(wire1, w) })
		}
		// (a) text and shape
		if kind, culprit, e, o := treeDiff(want, got); kind != "" {
			res.add(Violation{Prop: "C04", Oracle: kind + "-at-unknowing", Culprit: culprit, Expected: e, Observed: o, Where: where})
		} else {
			// (b) type names, marks; safe details for opaque layers
			for i := range want {
				if want[i].TypeName != got[i].TypeName || want[i].Mark != got[i].Mark {
					res.add(Violation{Prop: "C04", Oracle: "typename-at-unknowing", Culprit: typeOfLayer(want[i]),
						Expected: want[i].TypeName + " " + want[i].Mark, Observed: got[i].TypeName + " " + got[i].Mark, Where: where})
				}
				// The origin's safe details of a layer are what its encoder put
				// on the wire: a type need not implement SafeDetails() itself.
				// They are compared hop by hop against the inbound message
				// (an intermediary that knows a barrier legitimately re-derives
				// that barrier's details, the carve-out C11 states).
				if strings.Contains(got[i].GoType, "errbase.opaque") && i < len(wire1) && wire1[i].Path == want[i].Path {
					ws := wire1[i].Details().ReportablePayload
					if fmt.Sprintf("%q", ws) != fmt.Sprintf("%q", got[i].Safe) && !(len(ws) == 0 && len(got[i].Safe) == 0) {
						res.add(Violation{Prop: "C04", Oracle: "safedetails-at-unknowing", Culprit: typeOfLayer(want[i]),
							Expected: short(fmt.Sprintf("%q", ws)), Observed: short(fmt.Sprintf("%q", got[i].Safe)), Where: where})
					}
				}
			}
		}
		// (b') ... and the verbose rendering of every opaque layer names the
		// origin's type (not, e.g., the family it travels under)
		if verbose := obs.Fmt("%+v", d.Err); !obs.IsPanic(verbose) {
			if len(got) > 0 && strings.Contains(got[0].GoType, "errbase.opaque") {
				if direct := obs.FmtDirect("%+v", d.Err); direct != verbose {
					res.add(Violation{Prop: "C04", Oracle: "verbose-direct-equals-formattable-at-unknowing", Culprit: got[0].GoType, Expected: short(verbose), Observed: short(direct), Where: where})
				}
			}
			for i := range got {
				if strings.Contains(got[i].GoType, "errbase.opaque") && i < len(want) && want[i].TypeName != "" &&
					!strings.Contains(verbose, "type name: "+want[i].TypeName+"\n") {
					res.add(Violation{Prop: "C04", Oracle: "typename-in-verbose-at-unknowing", Culprit: typeOfLayer(want[i]),
						Expected: "a line 'type name: " + want[i].TypeName + "'", Observed: short(verbose), Where: where})
					break
				}
			}
		}
		// (c) re-encoding
		in, err1 := world.ParseWire(d.Msg.Data)
		out, err2 := world.ParseWire(d.ReData)
		if err1 != nil || err2 != nil {
			res.add(Violation{Prop: "C04", Oracle: "re-encode-parse", Culprit: "wire", Expected: "parseable", Observed: fmt.Sprint(err1, err2), Where: where})
			return
		}
		var ni, no []*world.WireNode
		world.WalkWire(in, true, func(w *world.WireNode) { ni = append(ni, w) })
		world.WalkWire(out, true, func(w *world.WireNode) { no = append(no, w) })
		allUnknown := true
		for i, a := range ni {
			known := d.Proc.Prof.Knows(a.Family()) && isRegistered(a.Family())
			if known {
				allUnknown = false
				continue
			}
			if i >= len(no) || no[i].Path != a.Path {
				res.add(Violation{Prop: "C04", Oracle: "re-encode-structure", Culprit: world.ShortKey(a.Family()), Expected: a.Path, Observed: "missing", Where: where})
				break
			}
			b := no[i]
			da, _ := a.Details().Marshal()
			db, _ := b.Details().Marshal()
			mtA, mtB := int32(0), int32(0)
			if a.Wrapper != nil && b.Wrapper != nil {
				mtA, mtB = int32(a.Wrapper.MessageType), int32(b.Wrapper.MessageType)
			}
			if a.Message() != b.Message() || !bytes.Equal(da, db) || mtA != mtB || (a.Leaf == nil) != (b.Leaf == nil) {
				res.add(Violation{Prop: "C04", Oracle: "re-encode-unknown-node-verbatim", Culprit: world.ShortKey(a.Family()),
					Expected: short(fmt.Sprintf("msg=%q type=%d details=%x", a.Message(), mtA, da)),
					Observed: short(fmt.Sprintf("msg=%q type=%d details=%x", b.Message(), mtB, db)), Where: where})
			}
		}
		if allUnknown && !bytes.Equal(d.Msg.Data, d.ReData) {
			res.add(Violation{Prop: "C04", Oracle: "re-encode-verbatim", Culprit: wireDiffCulprit(d.Msg.Data, d.ReData),
				Expected: fmt.Sprintf("%d identical bytes", len(d.Msg.Data)), Observed: fmt.Sprintf("%d bytes, differs", len(d.ReData)), Where: where})
		}
	}
	sim.Run()
	// (d) the final knowing process reconstructs the same error as the control
	if fin.ok && ctl.ok {
		where := "final knowing process vs direct control"
		if kind, culprit, e, o := treeDiff(ctl.tree, fin.tree); kind != "" {
			res.add(Violation{Prop: "C04", Oracle: kind + "-at-final", Culprit: culprit, Expected: e, Observed: o, Where: where})
		} else {
			for i := range ctl.tree {
				a, b := ctl.tree[i], fin.tree[i]
				if a.GoType != b.GoType || a.TypeName != b.TypeName || a.Mark != b.Mark {
					res.add(Violation{Prop: "C04", Oracle: "type-at-final", Culprit: typeOfLayer(a),
						Expected: a.GoType + " " + a.TypeName + " " + a.Mark, Observed: b.GoType + " " + b.TypeName + " " + b.Mark, Where: where})
				}
				if !isBarrierOrSecondary(a.TypeName) && fmt.Sprintf("%q", a.Safe) != fmt.Sprintf("%q", b.Safe) {
					res.add(Violation{Prop: "C04", Oracle: "safedetails-at-final", Culprit: typeOfLayer(a),
						Expected: short(fmt.Sprintf("%q", a.Safe)), Observed: short(fmt.Sprintf("%q", b.Safe)), Where: where})
				}
				if a.Stack != b.Stack {
					res.add(Violation{Prop: "C04", Oracle: "stack-at-final", Culprit: typeOfLayer(a), Expected: short(a.Stack), Observed: short(b.Stack), Where: where})
				}
			}
		}
		if ctl.isRow != fin.isRow {
			idx := 0
			for idx < len(ctl.isRow) && ctl.isRow[idx] == fin.isRow[idx] {
				idx++
			}
			res.add(Violation{Prop: "C04", Oracle: "is-at-final", Culprit: refCulprit(refs[idx]), Expected: ctl.isRow, Observed: fin.isRow, Where: where + " ref=" + refs[idx].Name})
		}
		for i := range ctl.acc {
			if ctl.acc[i].V != fin.acc[i].V {
				res.add(Violation{Prop: "C04", Oracle: "accessor-at-final", Culprit: ctl.acc[i].K, Expected: short(ctl.acc[i].V), Observed: short(fin.acc[i].V), Where: where})
			}
		}
		if ctl.plusV != fin.plusV {
			res.add(Violation{Prop: "C04", Oracle: "verbose-at-final", Culprit: firstDiffLine(ctl.plusV, fin.plusV), Expected: short(ctl.plusV), Observed: short(fin.plusV), Where: where})
		}
		if ctl.v != fin.v {
			res.add(Violation{Prop: "C04", Oracle: "v-at-final", Culprit: typeOfLayer(ctl.tree[0]), Expected: short(ctl.v), Observed: short(fin.v), Where: where})
		}
	} else if len(res.Violations) == 0 {
		res.add(Violation{Prop: "C04", Oracle: "route-incomplete", Culprit: "harness", Expected: "final and control deliveries", Observed: fmt.Sprint(fin.ok, ctl.ok)})
	}
	// ---- cross-check of hook H1 against the hook-free simulation of an
	// unknowing process: the same route is replayed at fully knowing
	// processes with the families unknown to U_j renamed on the wire
	// (inbound: X -> X#u, outbound: back). Both simulations must observe
	// the same thing: the statement itself describes an unknowing process as
	// one that is handed family names it has never heard of.
	if (tier == Thorough || t.Bool(1, 4)) && len(res.Violations) == 0 && fin.ok {
		world.Full().Install()
		data := m1
		// half of the time the payload messages of the unknown types are
		// unknown too (their type URLs are renamed along)
		withPayloads := t.Bool(1, 2)
		if withPayloads {
			sim.Stats.Faults["payload-type=unknown"]++
		}
		for j := 1; j <= m && res.Trouble == "" && len(res.Violations) == 0; j++ {
			prof := sim.Procs[j].Prof
			in, err := world.RenameFamiliesAndPayloads(data, func(f string) bool { return !prof.Knows(f) }, true, withPayloads)
			if err != nil {
				res.Trouble = "rename: " + err.Error()
				break
			}
			e, p := obs.Decode(in)
			if p != "" || e == nil {
				res.Trouble = "rename-xcheck decode: " + p
				break
			}
			o := obsOf(e)
			h := h1At[j]
			if o.shape != h.shape || fmt.Sprintf("%q", o.texts) != fmt.Sprintf("%q", h.texts) || fmt.Sprint(o.types) != fmt.Sprint(h.types) {
				// a process handed families it has never heard of (the
				// statement's own way of simulating an unknowing process) must
				// make of the message what a process lacking the decoders makes of it
				res.add(Violation{Prop: "C04", Oracle: "unknown-family-kept-opaque", Culprit: prof.Name,
					Expected: short(fmt.Sprintf("%s %q %v", h.shape, h.texts, h.types)), Observed: short(fmt.Sprintf("%s %q %v", o.shape, o.texts, o.types)),
					Where: fmt.Sprintf("hop %d, families unknown to %s renamed on the wire", j, prof.Name)})
				break
			}
			out, p2 := obs.Encode(e)
			if p2 != "" {
				res.Trouble = "rename-xcheck encode: " + p2
				break
			}
			if data, err = world.RenameFamiliesAndPayloads(out, nil, false, withPayloads); err != nil {
				res.Trouble = "rename back: " + err.Error()
			}
		}
		if res.Trouble == "" && len(res.Violations) == 0 {
			if e, p := obs.Decode(data); p == "" && e != nil {
				o := obsOf(e)
				var ft, fy []string
				for _, n := range fin.tree {
					ft = append(ft, n.Text)
					fy = append(fy, n.GoType)
				}
				if o.shape != obs.Shape(fin.tree) || fmt.Sprintf("%q", o.texts) != fmt.Sprintf("%q", ft) || fmt.Sprint(o.types) != fmt.Sprint(fy) || obs.IsRow(e, refErrs) != fin.isRow {
					res.add(Violation{Prop: "C04", Oracle: "unknown-family-kept-opaque", Culprit: "final",
						Expected: short(fmt.Sprintf("%q %v", ft, fy)), Observed: short(fmt.Sprintf("%q %v", o.texts, o.types)),
						Where: "final knowing process, after a route whose unknown families were renamed on the wire"})
				}
			}
			sim.Stats.Faults["rename-xcheck"]++
		}
	}
	res.Stats = sim.Stats
	res.LogDigest = sim.LogDigest()
	res.Nontrivial = len(want) >= 2 && anyUnknown
	res.Key = spec.Shape() + "|" + profKey
	return res
}

func cfgOf(d *world.Delivery) string { return "" }

func isRegistered(family string) bool {
	for _, k := range world.Keys() {
		if k == family {
			return true
		}
	}
	return false
}

func refCulprit(r Ref) string {
	if r.Spec != nil {
		return "gen-ref"
	}
	return r.Name
}

// firstDiffLine returns a normalised form of the first line that differs.
func firstDiffLine(a, b string) string {
	la, lb := strings.Split(a, "\n"), strings.Split(b, "\n")
	for i := range la {
		if i >= len(lb) || la[i] != lb[i] {
			s := strings.Map(func(r rune) rune {
				if r >= '0' && r <= '9' {
					return '#'
				}
				return r
			}, strings.TrimSpace(la[i]))
			if len(s) > 40 {
				s = s[:40]
			}
			return fmt.Sprintf("line:%s", s)
		}
	}
	return "extra-lines"
}
