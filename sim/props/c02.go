package props

import (
	"fmt"

	"errsim/gen"
	"errsim/model"
	"errsim/obs"
	"errsim/tape"
	"errsim/world"

	"github.com/cockroachdb/errors"
)

// C02 — error identity (Is/IsAny) is invariant under network transfer.
type c02 struct{}

func init() { register(c02{}) }

func (c02) ID() string { return "C02" }

func (c02) Rule() string {
	return "each run: seeded tree e (regular strings) and a reference pool (13 sentinels, every visible node of e, independent / perturbed / cloned generated trees); " +
		"cluster of knowing and unknowing processes; e travels a route mixing both kinds, up to 3 generated references travel their own routes; " +
		"oracles: (a) Is(e_i, r) for local r at every knowing process (and, at unknowing ones, for stdlib sentinels), (b) Is(e_i, r_j) where both met at a process, " +
		"(c) Is(e_0, r_j) back at the origin, IsAny == disjunction; with an errno leaf, 1/4 of the runs rewrite it as sent by a peer of another architecture and compare the stdlib sentinels only; distinct = (shape of e x profile sequence x number of transferred refs); " +
		"non-trivial = e has >= 2 layers, the route has >= 1 hop and the origin row contains at least one match"
}

// isMethodOnly reports whether a true Is(e, r) at the origin cannot be
// explained by mark equality (it came from object identity of a value that
// has no equal mark, or from a type's own Is method).
func notMarkExplainable(e, r error, explicit map[error]error) bool {
	defer func() { recover() }()
	return !model.MarkExplainable(e, r, explicit)
}

func (c02) Run(t *tape.Tape, tier Tier) *Result {
	res := &Result{}
	cfg := gen.Config{Alpha: gen.Regular, Swarm: true, MaxDepth: 6, MaxNodes: 12}
	if tier == Thorough {
		cfg.MaxDepth, cfg.MaxNodes = 7, 20
	}
	g := gen.New(t, cfg)
	spec := g.Tree()
	if t.Draw(1000) == 7 {
		// rarely: a chain of many layers (limits that depend on depth)
		spec = g.DeepChain(34 + t.Draw(8))
	}
	b := &gen.Builder{}
	sim := world.NewSim(t)
	sim.AddProcess(world.Full())
	sim.At(0)
	e0 := b.Build(spec)
	want := obs.Tree(e0, false)
	res.Desc.Tree = spec.Expr()
	res.Kinds = kindsOf(spec)
	m1, p := obs.Encode(e0)
	if p != "" {
		res.add(Violation{Prop: "C02", Oracle: "encode-at-origin", Culprit: typeOfLayer(want[0]), Expected: "no panic", Observed: p})
		return res
	}
	// an errno may come from a peer of the same OS on another architecture
	// (transport fault): the receiver keeps what the sender computed, so the
	// well-known sentinels it matched must still match and no other may start to
	foreign := false
	ownIs := spec.HasKind(func(k gen.Kind) bool { return k == gen.LUIsStd })
	if spec.HasKind(func(k gen.Kind) bool { return k == gen.LErrno }) && t.Bool(1, 4) {
		if d2, n := world.ForeignArchErrno(m1); n > 0 {
			m1, foreign = d2, true
			sim.Stats.Faults["errno-foreign-arch"] += n
			res.Desc.Faults = append(res.Desc.Faults, "errno-foreign-arch")
		}
	}
	refs := refPool(t, g, b, spec, e0, 2+t.Draw(3))
	refErrs := make([]error, len(refs))
	for i, r := range refs {
		refErrs[i] = r.Err
	}
	row0 := obs.IsRow(e0, refErrs)
	explain := make([]bool, len(refs)) // origin match is mark-explainable
	for i := range refs {
		explain[i] = row0[i] == 'T' && !notMarkExplainable(e0, refErrs[i], b.MarkRefs)
	}
	// cluster
	fams := familiesOf(m1)
	nproc := 2 + t.Draw(4)
	profKey := ""
	for i := 1; i < nproc; i++ {
		if t.Bool(1, 2) {
			pr := drawUnknowing(t, fams)
			sim.AddProcess(pr)
			profKey += pr.Name + ";"
		} else {
			sim.AddProcess(world.Full())
			profKey += "full;"
		}
	}
	// always end at a knowing process so that every run has a full comparison point
	kEnd := sim.AddProcess(world.Full())
	res.Desc.Cluster = clusterDesc(sim)
	maxHops := 4
	if tier == Thorough {
		maxHops = 7
	}
	route := append(drawRoute(t, nproc, maxHops), kEnd.ID, 0) // ... -> kEnd -> back to origin
	res.Desc.Routes = append(res.Desc.Routes, "e:"+routeString(append([]int{0}, route...)))
	sim.DupNum = 0
	sim.Send(0, 1, []int{0}, route, m1)
	// transferred references: generated ones and a node of e0
	type held struct {
		err  error
		hop  int
		path string
	}
	transferred := map[int]int{} // flow -> ref index
	refTrees := map[int][]obs.Node{}
	nTrans := 0
	for i, r := range refs {
		if r.Spec == nil && !(r.Name == "node[]" && t.Bool(1, 2)) {
			continue
		}
		if nTrans >= 3 {
			break
		}
		data, p := obs.Encode(r.Err)
		if p != "" {
			continue
		}
		nTrans++
		flow := nTrans
		transferred[flow] = i
		refTrees[i] = obs.Tree(r.Err, false)
		rr := append(drawRoute(t, nproc, maxHops), kEnd.ID, 0)
		if t.Bool(1, 2) {
			rr = append([]int(nil), route...) // same path as e: the pair meets at every process
		}
		res.Desc.Routes = append(res.Desc.Routes, fmt.Sprintf("ref[%s]:%s", r.Name, routeString(append([]int{0}, rr...))))
		sim.At(0)
		sim.Send(flow, 1, []int{0}, rr, data)
	}
	// what each process currently holds, per flow (latest arrival)
	holds := make([]map[int]held, len(sim.Procs))
	for i := range holds {
		holds[i] = map[int]held{}
	}
	matches := 0
	for i := range row0 {
		if row0[i] == 'T' {
			matches++
		}
	}
	// textNote renders, for a changed answer, whether the Error() text of
	// some layer changed in transit (then the change of identity is a
	// consequence of that text change, and the texts are part of the report).
	textNote := func(want, got []obs.Node) (string, string) {
		if kind, _, e, o := treeDiff(want, got); kind != "" {
			return "; " + kind + "=" + e, "; " + kind + "=" + o
		}
		return "", ""
	}
	checkPair := func(oracle string, e, r error, refIdx int, where string, atOrigin byte, wantE, wantR []obs.Node) {
		got := obs.IsOne(e, r)
		exp := atOrigin
		if got == exp {
			return
		}
		if exp == 'T' && !explain[refIdx] {
			// the origin match depended on identity / a foreign Is method that a copy cannot satisfy
			res.count("skipped-not-mark-explainable", 1)
			return
		}
		es, os := string(exp), string(got)
		if wantE != nil {
			a, b := textNote(wantE, obs.Tree(e, false))
			es, os = es+a, os+b
		}
		if wantR != nil {
			a, b := textNote(wantR, obs.Tree(r, false))
			es, os = es+a, os+b
		}
		res.add(Violation{Prop: "C02", Oracle: oracle, Culprit: refCulprit(refs[refIdx]) + ":" + string(exp) + "->" + string(got),
			Expected: es, Observed: os, Where: where + " ref=" + refs[refIdx].Name})
	}
	withMarkKey := "github.com/cockroachdb/errors/markers/*markers.withMark"
	sim.OnDeliver = func(d *world.Delivery) {
		where := fmt.Sprintf("flow %d hop %d at process %d (%s) via %s", d.Msg.Flow, d.Msg.Hop, d.Proc.ID, d.Proc.Prof.Name, routeString(d.Msg.Path))
		if d.Panic != "" || d.RePanic != "" {
			res.add(Violation{Prop: "C02", Oracle: "transfer", Culprit: typeOfLayer(want[0]), Expected: "no panic", Observed: d.Panic + d.RePanic, Where: where})
			return
		}
		if foreign {
			// only the sentinels of the standard library are compared: the
			// errno leaf itself legitimately became an opaque errno
			if d.Msg.Flow == 0 && d.Proc.Prof.IsFull() {
				row := obs.IsRow(d.Err, refErrs)
				sim.Logf("isrow(foreign) %s", row)
				for i := range refs {
					// a match with one of the OS predicates' sentinels came from
					// the errno (whose predicates travel with it) unless a
					// foreign type's own Is method could have produced it
					osPred := refs[i].Name == "os.ErrNotExist" || refs[i].Name == "os.ErrExist" || refs[i].Name == "os.ErrPermission"
					if refs[i].Native && row[i] != row0[i] && (row0[i] == 'F' || explain[i] || (osPred && !ownIs)) {
						res.add(Violation{Prop: "C02", Oracle: "e-transferred-foreign-errno", Culprit: refCulprit(refs[i]) + ":" + string(row0[i]) + "->" + string(row[i]),
							Expected: string(row0[i]), Observed: string(row[i]), Where: where + " ref=" + refs[i].Name})
					}
				}
			}
			return
		}
		holds[d.Proc.ID][d.Msg.Flow] = held{d.Err, d.Msg.Hop, routeString(d.Msg.Path)}
		full := d.Proc.Prof.IsFull()
		if d.Msg.Flow == 0 {
			// (a) e transferred, r local
			row := obs.IsRow(d.Err, refErrs)
			sim.Logf("isrow %s", row)
			for i := range refs {
				if !full && !refs[i].Native {
					continue
				}
				if row[i] == row0[i] {
					continue
				}
				if !full && row0[i] == 'T' {
					// an opaque stand-in has neither the type's own Is method nor
					// (unless this process knows withMark) an explicit mark
					explicit := b.MarkRefs
					if !d.Proc.Prof.Knows(withMarkKey) {
						explicit = nil
					}
					if !explainAtUnknowing(e0, refErrs[i], explicit) {
						continue
					}
				}
				checkPair("e-transferred", d.Err, refErrs[i], i, where, row0[i], want, nil)
			}
			// IsAny over a drawn subset equals the disjunction
			var subset []error
			any := byte('F')
			for i := range refs {
				if (full || refs[i].Native) && (i*7+d.Msg.Hop)%3 == 0 {
					subset = append(subset, refErrs[i])
					if row[i] == 'T' {
						any = 'T'
					}
				}
			}
			if len(subset) > 0 {
				got := obs.S(func() string { return fmt.Sprint(errors.IsAny(d.Err, subset...)) })
				if (got == "true") != (any == 'T') && !obs.IsPanic(got) {
					res.add(Violation{Prop: "C02", Oracle: "isany-disjunction", Culprit: typeOfLayer(want[0]), Expected: string(any), Observed: got, Where: where})
				}
			}
			if d.Proc.ID == 0 {
				return
			}
		}
		// (b) both transferred and meeting at this process. At a process that
		// lacks decoders both copies are opaque stand-ins: a match is expected
		// to persist only if mark equality explains it, and a non-match must
		// stay a non-match.
		if !full {
			if he, ok := holds[d.Proc.ID][0]; ok {
				for flow, idx := range transferred {
					hr, ok := holds[d.Proc.ID][flow]
					if !ok || !(d.Msg.Flow == 0 || d.Msg.Flow == flow) {
						continue
					}
					// only copies that travelled the same path: recorded text
					// distortions at unknowing processes (C04 findings) then
					// apply to both alike
					if he.path != hr.path {
						continue
					}
					if row0[idx] == 'T' {
						explicit := b.MarkRefs
						if !d.Proc.Prof.Knows(withMarkKey) {
							explicit = nil
						}
						if !explainAtUnknowing(e0, refErrs[idx], explicit) {
							continue
						}
					}
					got := obs.IsOne(he.err, hr.err)
					if got == row0[idx] {
						continue
					}
					txt := func(x error) string { return obs.S(func() string { return x.Error() }) }
					res.add(Violation{Prop: "C02", Oracle: "both-transferred-at-unknowing", Culprit: refCulprit(refs[idx]) + ":" + string(row0[idx]) + "->" + string(got),
						Expected: fmt.Sprintf("%c; e=%q r=%q", row0[idx], txt(e0), txt(refErrs[idx])),
						Observed: fmt.Sprintf("%c; e=%q r=%q", got, txt(he.err), txt(hr.err)),
						Where:    fmt.Sprintf("process %d (%s) holds e and ref[%s], both via %s", d.Proc.ID, d.Proc.Prof.Name, refs[idx].Name, he.path)})
				}
			}
			return
		}
		// (b) both transferred and meeting at this knowing process
		if he, ok := holds[d.Proc.ID][0]; ok {
			for flow, idx := range transferred {
				if hr, ok := holds[d.Proc.ID][flow]; ok && (d.Msg.Flow == 0 || d.Msg.Flow == flow) {
					w := fmt.Sprintf("process %d holds e after hop %d and ref after hop %d", d.Proc.ID, he.hop, hr.hop)
					if d.Proc.ID == 0 {
						w += " (both back at the origin)"
					}
					checkPair("both-transferred", he.err, hr.err, idx, w, row0[idx], want, refTrees[idx])
				}
			}
		}
		// (c) only r transferred: evaluated at the origin against the original e0
		if d.Proc.ID == 0 && d.Msg.Flow != 0 {
			idx := transferred[d.Msg.Flow]
			checkPair("ref-transferred", e0, d.Err, idx, where, row0[idx], nil, refTrees[idx])
		}
	}
	sim.Run()
	res.Stats = sim.Stats
	res.LogDigest = sim.LogDigest()
	res.count("origin-matches", matches)
	res.Nontrivial = len(want) >= 2 && sim.Stats.Deliveries >= 1 && matches >= 1
	res.Key = fmt.Sprintf("%s|%s|r%d", spec.Shape(), profKey, nTrans)
	return res
}

// explainAtUnknowing: at a process lacking some decoders only matches that
// mark equality explains can be expected to persist (a type's own Is method
// is not available on an opaque stand-in).
func explainAtUnknowing(e, r error, explicit map[error]error) bool {
	return !notMarkExplainable(e, r, explicit)
}
