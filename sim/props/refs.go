package props

import (
	"fmt"

	"errsim/gen"
	"errsim/obs"
	"errsim/tape"
)

// Ref is one reference error of a run's reference pool.
type Ref struct {
	Name string
	Err  error
	// Native: the reference exists natively in every process (stdlib
	// sentinels), as opposed to harness types an unknowing process would not have.
	Native bool
	Spec   *gen.Node // non-nil for generated references
}

// refPool builds the reference pool of a run: sentinels, every visible node
// of e0, and a few independently generated and near-equal trees.
func refPool(t *tape.Tape, g *gen.Gen, b *gen.Builder, spec *gen.Node, e0 error, extra int) []Ref {
	var refs []Ref
	for i, s := range gen.Sentinels {
		refs = append(refs, Ref{Name: gen.SentinelNames[i], Err: s, Native: i < 11})
	}
	for _, n := range obs.Tree(e0, false) {
		refs = append(refs, Ref{Name: "node[" + n.Path + "]", Err: n.Err})
	}
	// near-equal copies of the spec: one message / one kind / one domain changed
	for i := 0; i < extra; i++ {
		var rs *gen.Node
		switch t.Draw(3) {
		case 0:
			rs = g.Sub(6)
		case 1:
			rs = perturb(t, g, spec)
		default:
			rs = cloneSpec(spec) // an equal but distinct object
		}
		refs = append(refs, Ref{Name: fmt.Sprintf("gen%d:%s", i, rs.Shape()), Err: b.Build(rs), Spec: rs})
	}
	return refs
}

func cloneSpec(n *gen.Node) *gen.Node {
	c := *n
	c.S = append([]gen.Str(nil), n.S...)
	c.A = append([]gen.Arg(nil), n.A...)
	c.T = append([]gen.Tag(nil), n.T...)
	c.N = append([]int(nil), n.N...)
	c.Kids = nil
	c.Hid = nil
	for _, k := range n.Kids {
		c.Kids = append(c.Kids, cloneSpec(k))
	}
	for _, h := range n.Hid {
		c.Hid = append(c.Hid, cloneSpec(h))
	}
	return &c
}

// perturb returns a copy of spec with one string, one int or one layer changed.
func perturb(t *tape.Tape, g *gen.Gen, spec *gen.Node) *gen.Node {
	c := cloneSpec(spec)
	var nodes []*gen.Node
	var walk func(n *gen.Node)
	walk = func(n *gen.Node) {
		nodes = append(nodes, n)
		for _, k := range n.Kids {
			walk(k)
		}
	}
	walk(c)
	n := nodes[t.Draw(len(nodes))]
	switch t.Draw(3) {
	case 0:
		if len(n.S) > 0 {
			i := t.Draw(len(n.S))
			n.S[i].V += "x"
			return c
		}
		fallthrough
	case 1:
		if len(n.N) > 0 {
			n.N[0] = (n.N[0] + 1) % 2
			return c
		}
		fallthrough
	default:
		// wrap the root in one more layer
		return &gen.Node{K: gen.WHint, S: []gen.Str{{V: "extra"}}, Kids: []*gen.Node{c}}
	}
}
