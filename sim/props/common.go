// Package props holds one scenario + oracle per claimed property.
package props

import (
	"fmt"
	"sort"
	"strings"

	"errsim/gen"
	"errsim/obs"
	"errsim/tape"
	"errsim/world"
)

// Tier is quick or thorough.
type Tier int

// Tiers.
const (
	Quick Tier = iota
	Thorough
)

func (t Tier) String() string {
	if t == Thorough {
		return "thorough"
	}
	return "quick"
}

// Violation is one oracle failure.
type Violation struct {
	Prop     string `json:"property"`
	Oracle   string `json:"oracle"`
	Culprit  string `json:"culprit"`
	Config   string `json:"config,omitempty"`
	Expected string `json:"expected"`
	Observed string `json:"observed"`
	Where    string `json:"where,omitempty"`
}

// Sig is the signature preserved by the shrinker and matched against the
// known-findings file.
func (v Violation) Sig() string {
	return v.Prop + "|" + v.Oracle + "|" + v.Culprit + "|" + v.Config
}

// Desc is the human-readable description of a run.
type Desc struct {
	Tree    string   `json:"tree"`
	Cluster []string `json:"cluster,omitempty"`
	Routes  []string `json:"routes,omitempty"`
	Faults  []string `json:"faults,omitempty"`
	Notes   []string `json:"notes,omitempty"`
}

// Result is the outcome of one simulated run.
type Result struct {
	Violations []Violation
	Desc       Desc
	Stats      world.Stats
	// Key identifies the (tree shape x route profile x fault multiset)
	// class of this run for the distinct count.
	Key        string
	Nontrivial bool
	Kinds      []gen.Kind // constructors used
	Counters   map[string]int
	LogDigest  string
	Discarded  bool // the run was a generator reject (not counted as evaluation)
	// Trouble: the harness disagreed with itself (never a violation: exit 2).
	Trouble string
}

func (r *Result) add(v Violation) {
	// at most a handful per signature per run
	n := 0
	for _, x := range r.Violations {
		if x.Sig() == v.Sig() {
			n++
		}
	}
	if n < 2 && len(r.Violations) < 40 {
		r.Violations = append(r.Violations, v)
	}
}

func (r *Result) count(k string, n int) {
	if r.Counters == nil {
		r.Counters = map[string]int{}
	}
	r.Counters[k] += n
}

// Property is a claimed property's scenario.
type Property interface {
	ID() string
	// Run executes one simulated run drawing all choices from t.
	Run(t *tape.Tape, tier Tier) *Result
	// Rule describes how runs are generated and what counts as distinct and non-trivial.
	Rule() string
}

// Enumerator is implemented by properties that have an exhaustively
// enumerated part: runs 0..EnumSize-1 replay the tape TapeFor(i) instead of
// drawing from the PRNG.
type Enumerator interface {
	EnumSize(tier Tier) int
	TapeFor(i int, tier Tier) []uint32
}

// Registry of properties.
var registry = map[string]Property{}

func register(p Property) { registry[p.ID()] = p }

// Get returns a property by id.
func Get(id string) Property { return registry[id] }

// IDs lists the registered property ids.
func IDs() []string {
	var out []string
	for k := range registry {
		out = append(out, k)
	}
	sort.Strings(out)
	return out
}

// ---- shared helpers -----------------------------------------------------

func short(s string) string {
	if len(s) > 400 {
		return s[:400] + fmt.Sprintf("...(%d bytes)", len(s))
	}
	return s
}

func kindsOf(n *gen.Node) []gen.Kind {
	seen := map[gen.Kind]bool{}
	var out []gen.Kind
	n.Walk(func(x *gen.Node, _ bool) {
		if !seen[x.K] {
			seen[x.K] = true
			out = append(out, x.K)
		}
	})
	return out
}

func routeString(path []int) string {
	var b strings.Builder
	for i, p := range path {
		if i > 0 {
			b.WriteString(">")
		}
		fmt.Fprint(&b, p)
	}
	return b.String()
}

// typeOfLayer gives a stable, short locator for a layer: its original type name.
func typeOfLayer(n obs.Node) string {
	if n.TypeName != "" {
		return world.ShortKey(n.TypeName)
	}
	return n.GoType
}

// treeDiff compares two visible trees (shape and per-node text). It returns
// "" if equal, else the kind of difference, the culprit layer and rendered
// expected/observed values.
func treeDiff(want, got []obs.Node) (kind, culprit, exp, obsd string) {
	if obs.Shape(want) != obs.Shape(got) {
		// find the first path where they differ
		for i := range want {
			if i >= len(got) || want[i].Path != got[i].Path || want[i].HasCause != got[i].HasCause || want[i].Multi != got[i].Multi {
				return "shape", typeOfLayer(want[i]), obs.Shape(want), obs.Shape(got)
			}
		}
		return "shape", "extra-nodes", obs.Shape(want), obs.Shape(got)
	}
	// texts: report the deepest differing node whose descendants all agree
	best := -1
	for i := range want {
		if want[i].Text != got[i].Text {
			ok := true
			for j := range want {
				if j != i && strings.HasPrefix(want[j].Path, want[i].Path) && len(want[j].Path) > len(want[i].Path) && want[j].Text != got[j].Text {
					ok = false
					break
				}
			}
			if ok {
				best = i
			}
		}
	}
	if best >= 0 {
		return "text", typeOfLayer(want[best]), fmt.Sprintf("%q", want[best].Text), fmt.Sprintf("%q", got[best].Text)
	}
	return "", "", "", ""
}

// profileDesc renders the cluster for a description.
func clusterDesc(s *world.Sim) []string {
	var out []string
	for _, p := range s.Procs {
		out = append(out, fmt.Sprintf("%d:%s", p.ID, p.Prof.Name))
	}
	return out
}

// drawRoute draws a route of length 1..maxLen over processes [1, n).
func drawRoute(t *tape.Tape, n, maxLen int) []int {
	l := 1 + t.Draw(maxLen)
	r := make([]int, l)
	for i := range r {
		r[i] = 1 + t.Draw(n-1)
	}
	return r
}

// familiesOf lists the distinct family names on the wire of data (deep).
func familiesOf(data []byte) []string {
	enc, err := world.ParseWire(data)
	if err != nil {
		return nil
	}
	set := map[string]bool{}
	world.WalkWire(enc, true, func(w *world.WireNode) { set[w.Family()] = true })
	var out []string
	for k := range set {
		out = append(out, k)
	}
	sort.Strings(out)
	return out
}

// drawUnknowing draws the profile of an unknowing process given the
// families that actually occur in the message (so that the knock-out is
// relevant) and the registered keys.
func drawUnknowing(t *tape.Tape, fams []string) *world.Profile {
	keys := world.Keys()
	reg := map[string]bool{}
	for _, k := range keys {
		reg[k] = true
	}
	var rel []string // registered families occurring in the message
	for _, f := range fams {
		if reg[f] {
			rel = append(rel, f)
		}
	}
	mode := t.Draw(5)
	switch {
	case mode == 0 || len(rel) == 0:
		return world.Minus("none", keys)
	case mode == 1:
		k := rel[t.Draw(len(rel))]
		return world.Minus("minus["+world.ShortKey(k)+"]", []string{k})
	case mode == 2:
		// all but one of the relevant ones
		keep := rel[t.Draw(len(rel))]
		var rm []string
		for _, k := range keys {
			if k != keep {
				rm = append(rm, k)
			}
		}
		return world.Minus("only["+world.ShortKey(keep)+"]", rm)
	default:
		var rm, names []string
		for _, k := range rel {
			if t.Bool(1, 2) {
				rm = append(rm, k)
				names = append(names, world.ShortKey(k))
			}
		}
		if len(rm) == 0 {
			rm = []string{rel[0]}
			names = []string{world.ShortKey(rel[0])}
		}
		return world.Minus("minus["+strings.Join(names, ",")+"]", rm)
	}
}
