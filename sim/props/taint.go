package props

import (
	"encoding/hex"
	"encoding/json"
	"fmt"
	"strings"
	"time"

	"errsim/gen"
	"errsim/obs"
	"errsim/tape"
	"errsim/world"

	"github.com/cockroachdb/errors"
	"github.com/cockroachdb/redact"
	"github.com/getsentry/sentry-go"
)

// legacyToken marks the unsafe message of a barrier injected under the
// library's previous type name.
const legacyToken = "TKUlegacyQ"

// taintSetup is the scenario shared by C03, C06 and C12: a tree whose
// strings carry unique tokens, observed at the origin and after every
// delivery along a route.
type taintSetup struct {
	spec   *gen.Node
	e0     error
	tokens []gen.Token
	sim    *world.Sim
	route  []int
	prof   string
	// note describes the circumstances of the value under observation
	// ("barrier-crossed-unknowing": the tree holds a barrier and the value
	// has passed through a process that does not know barrierErr)
	note string
}

func newTaint(t *tape.Tape, tier Tier, res *Result, alpha gen.Alphabet, allowUnknowing bool, prop string) *taintSetup {
	cfg := gen.Config{Alpha: alpha, Swarm: true, MaxDepth: 6, MaxNodes: 14, Verbs: true, Alias: true, RichArgs: true, LongStrings: true, ExtraArgs: true}
	if tier == Thorough {
		cfg.MaxDepth, cfg.MaxNodes = 7, 24
	}
	g := gen.New(t, cfg)
	ts := &taintSetup{spec: g.Tree()}
	if prop == "C03" && t.Draw(400) == 7 {
		// rarely: a long chain of layers that each carry unsafe text
		ts.spec = g.DeepUnsafeChain(66 + t.Draw(20))
	}
	ts.sim = world.NewSim(t)
	ts.sim.AddProcess(world.Full())
	ts.sim.At(0)
	ts.e0 = gen.Build(ts.spec)
	ts.tokens = ts.spec.Tokens()
	// (the plain message of a previous-version barrier injected on the wire)
	ts.tokens = append(ts.tokens, gen.Token{Tok: legacyToken, Kind: gen.LHandledMsg})
	res.Desc.Tree = ts.spec.Expr()
	res.Kinds = kindsOf(ts.spec)
	m1, p := obs.Encode(ts.e0)
	var fams []string
	if p == "" {
		fams = familiesOf(m1)
	}
	nproc := 2 + t.Draw(3)
	for i := 1; i < nproc; i++ {
		if allowUnknowing && t.Bool(1, 2) {
			pr := drawUnknowing(t, fams)
			ts.sim.AddProcess(pr)
			ts.prof += pr.Name + ";"
		} else {
			ts.sim.AddProcess(world.Full())
			ts.prof += "full;"
		}
	}
	kEnd := ts.sim.AddProcess(world.Full())
	res.Desc.Cluster = clusterDesc(ts.sim)
	maxHops := 3
	if tier == Thorough {
		maxHops = 6
	}
	if t.Bool(1, 5) {
		ts.route = nil // local only
	} else {
		ts.route = append(drawRoute(t, nproc, maxHops), kEnd.ID)
	}
	res.Desc.Routes = []string{routeString(append([]int{0}, ts.route...))}
	ts.sim.DupNum = 0
	if alpha == gen.Hostile && prop != "C12" && t.Bool(1, 3) {
		// a peer controls the bytes on the wire: at one drawn hop one string
		// field of one wire node (message/prefix, a reportable string, the
		// type name) is replaced by a hostile string
		faultHop := 1 + t.Draw(3)
		ts.sim.Mutate = func(m *world.Msg) []byte {
			if m.Hop != faultHop || m.Flow != 0 {
				return m.Data
			}
			enc, err := world.ParseWire(m.Data)
			if err != nil {
				return m.Data
			}
			var nodes []*world.WireNode
			world.WalkWire(enc, false, func(w *world.WireNode) { nodes = append(nodes, w) })
			// a barrier may arrive from a peer running the previous version of
			// the library: other type name, and a plain (not redactable) message
			var barriersOnWire []*world.WireNode
			for _, n := range nodes {
				if strings.HasSuffix(n.Family(), "barriers.barrierErr") && n.Leaf != nil {
					barriersOnWire = append(barriersOnWire, n)
				}
			}
			if len(barriersOnWire) > 0 && t.Bool(1, 2) {
				b := barriersOnWire[t.Draw(len(barriersOnWire))]
				old := strings.TrimSuffix(b.Family(), "barrierErr") + "barrierError"
				b.Leaf.Details.OriginalTypeName = old
				b.Leaf.Details.ErrorTypeMark.FamilyName = old
				b.Leaf.Message = legacyToken + " " + hostileWire[t.Draw(len(hostileWire))]
				if out, merr := enc.Marshal(); merr == nil {
					ts.sim.Stats.Faults["barrier=previous-version"]++
					res.Desc.Faults = append(res.Desc.Faults, fmt.Sprintf("barrier=previous-version@hop%d:%s", m.Hop, b.Path))
					return out
				}
				return m.Data
			}
			w := nodes[t.Draw(len(nodes))]
			hs := hostileWire[t.Draw(len(hostileWire))]
			var what string
			choice := t.Draw(3)
			if choice == 0 && strings.HasSuffix(w.Family(), "barriers.barrierErr") {
				// by protocol this field *is* a redactable string (the
				// decoder of knowing receivers casts it); a malformed one is
				// not an "input string" in the sense of C03/C06
				choice = 1
			}
			switch choice {
			case 0:
				if w.Wrapper != nil {
					w.Wrapper.Message = hs
				} else {
					w.Leaf.Message = hs
				}
				what = "message"
			case 1:
				d := w.Details()
				if len(d.ReportablePayload) > 0 {
					d.ReportablePayload[t.Draw(len(d.ReportablePayload))] = hs
				} else {
					d.ReportablePayload = []string{hs}
				}
				what = "reportable"
			default:
				w.Details().OriginalTypeName = hs
				what = "typename"
			}
			out, merr := enc.Marshal()
			if merr != nil {
				return m.Data
			}
			ts.sim.Stats.Faults["string=hostile("+what+")"]++
			res.Desc.Faults = append(res.Desc.Faults, fmt.Sprintf("string=hostile(%s)@hop%d:%s(%s)", what, m.Hop, w.Path, world.ShortKey(w.Family())))
			return out
		}
	}
	if p == "" && len(ts.route) > 0 {
		ts.sim.Send(0, 1, []int{0}, ts.route, m1)
	} else if p != "" {
		// invalid UTF-8 makes protobuf refuse to marshal: the error stays local
		res.Desc.Notes = append(res.Desc.Notes, "not transferable: "+short(p))
		ts.route = nil
	}
	return ts
}

// run observes the origin value and every delivered value.
func (ts *taintSetup) run(res *Result, prop string, check func(e error, where string, p *world.Process, wire []byte)) {
	ts.sim.At(0)
	m1, _ := obs.Encode(ts.e0)
	check(ts.e0, "origin (local)", ts.sim.Procs[0], m1)
	ts.sim.OnDeliver = func(d *world.Delivery) {
		where := fmt.Sprintf("hop %d at process %d (%s) via %s", d.Msg.Hop, d.Proc.ID, d.Proc.Prof.Name, routeString(d.Msg.Path))
		if d.Panic != "" || d.RePanic != "" {
			res.add(Violation{Prop: prop, Oracle: "transfer", Culprit: obs.PanicSite(d.Panic + d.RePanic), Expected: "no panic", Observed: short(d.Panic + d.RePanic), Where: where})
			return
		}
		ts.note = ""
		if ts.spec.HasKind(func(k gen.Kind) bool { return gen.Info(k).Groups&gen.GBarrier != 0 }) {
			for _, pid := range d.Msg.Path {
				if ts.sim.Procs[pid].Prof.Unknown[famBarrier] {
					ts.note = "barrier-crossed-unknowing"
				}
			}
		}
		check(d.Err, where, d.Proc, d.ReData)
		ts.note = ""
	}
	ts.sim.Run()
	res.Stats = ts.sim.Stats
	res.LogDigest = ts.sim.LogDigest()
}

// kindOfToken returns the constructor name that introduced a token.
func kindOfToken(tok gen.Token) string { return tok.Kind.String() }

// ---- C03 ---------------------------------------------------------------

type c03 struct{}

func init() { register(c03{}) }

func (c03) ID() string { return "C03" }

func (c03) Rule() string {
	return "each run: seeded tree over the hostile alphabet (marker runes, newlines anywhere, empty, NUL, invalid UTF-8, printf verbs); every string entering through a channel " +
		"the property lists as unsafe carries a unique alphanumeric token; observed locally and after every hop of a route over knowing and unknowing processes ending at a knowing one; " +
		"oracle: no unsafe token in Redact()ed %v/%+v, GetAllSafeDetails / per-node GetSafeDetails, reportable payloads / type names / marks on the wire at any nesting level, " +
		"Sentry event JSON and extras; printf arguments use other verbs and positions than the default, values of application types (SafeFormatter with an unsafe part, Stringer) occur as " +
		"arguments and tag values, strings of several hundred bytes, rarely a chain of 130+ layers; distinct = (constructor-shape signature x profile sequence x route length); non-trivial = at least one unsafe token and >= 2 layers"
}

// piiFreeOutputs computes every output the library declares PII-free.
func piiFreeOutputs(e error, wire []byte) (names []string, outs []string) {
	add := func(n, s string) { names = append(names, n); outs = append(outs, s) }
	add("Redact(redact.Sprint)", obs.Redacted(obs.S(func() string { return string(redact.Sprint(e)) })))
	add("Redact(redact %+v)", obs.Redacted(obs.Red("%+v", e)))
	add("Redact(redact %v)", obs.Redacted(obs.Red("%v", e)))
	add("errors.Redact", obs.S(func() string { return errors.Redact(e) }))
	all, _ := obs.AllSafeDetails(e)
	add("GetAllSafeDetails", strings.Join(all, "\x1e"))
	var nodeSafe []string
	for _, n := range obs.Tree(e, false) {
		nodeSafe = append(nodeSafe, n.TypeName, n.Mark)
		nodeSafe = append(nodeSafe, n.Safe...)
	}
	add("GetSafeDetails(per node)", strings.Join(nodeSafe, "\x1e"))
	ev, extras, _ := obs.Report(e)
	add("BuildSentryReport event", ev)
	var ex []string
	for k, v := range extras {
		ex = append(ex, k+"="+v)
	}
	add("BuildSentryReport extras", strings.Join(ex, "\x1e"))
	// the event as it reaches a (capturing) sentry.Transport through ReportError
	add("ReportError via sentry.Transport", reportViaTransport(e))
	if wire != nil {
		if enc, err := world.ParseWire(wire); err == nil {
			var ws []string
			world.WalkWire(enc, true, func(w *world.WireNode) {
				d := w.Details()
				ws = append(ws, d.OriginalTypeName, d.ErrorTypeMark.FamilyName, d.ErrorTypeMark.Extension)
				ws = append(ws, d.ReportablePayload...)
			})
			add("wire reportable_payload/type names/marks", strings.Join(ws, "\x1e"))
		}
	}
	return
}

func (c03) Run(t *tape.Tape, tier Tier) *Result {
	res := &Result{}
	ts := newTaint(t, tier, res, gen.Hostile, true, "C03")
	var unsafe []gen.Token
	for _, tok := range ts.tokens {
		if !tok.Safe && !tok.Neutral {
			unsafe = append(unsafe, tok)
		}
	}
	ts.run(res, "C03", func(e error, where string, p *world.Process, wire []byte) {
		names, outs := piiFreeOutputs(e, wire)
		for i, out := range outs {
			if obs.IsPanic(out) {
				continue // totality is C05's subject
			}
			if names[i] != "ReportError via sentry.Transport" { // carries event ids and runtime context
				ts.sim.Logf("out %s %d", names[i], len(out))
			}
			for _, tok := range unsafe {
				if strings.Contains(out, tok.Tok) {
					idx := strings.Index(out, tok.Tok)
					lo, hi := idx-60, idx+len(tok.Tok)+30
					if lo < 0 {
						lo = 0
					}
					if hi > len(out) {
						hi = len(out)
					}
					res.add(Violation{Prop: "C03", Oracle: "leak:" + names[i], Culprit: kindOfToken(tok),
						Expected: "unsafe token " + tok.Tok + " absent", Observed: fmt.Sprintf("...%q...", out[lo:hi]), Where: where})
				}
			}
		}
	})
	res.count("unsafe-tokens", len(unsafe))
	res.Nontrivial = len(unsafe) >= 1 && ts.spec.Size() >= 2
	res.Key = fmt.Sprintf("%s|%s|%d", ts.spec.Shape(), ts.prof, len(ts.route))
	return res
}

type captureTransport struct{ events []*sentry.Event }

func (c *captureTransport) Configure(sentry.ClientOptions) {}
func (c *captureTransport) SendEvent(e *sentry.Event)      { c.events = append(c.events, e) }
func (c *captureTransport) Flush(time.Duration) bool       { return true }

var capture *captureTransport

// reportViaTransport sends e through errors.ReportError with the SDK's own
// transport seam pointed at a capturing transport and returns the event JSON.
func reportViaTransport(e error) string {
	if capture == nil {
		capture = &captureTransport{}
		if err := sentry.Init(sentry.ClientOptions{Transport: capture}); err != nil {
			panic("sentry.Init: " + err.Error())
		}
	}
	capture.events = nil
	return obs.S(func() string {
		errors.ReportError(e)
		var b strings.Builder
		for _, ev := range capture.events {
			data, jerr := json.Marshal(ev)
			if jerr != nil {
				return "JSON-ERROR"
			}
			b.Write(data)
		}
		return b.String()
	})
}

// ---- C06 ---------------------------------------------------------------

type c06 struct{}

func init() { register(c06{}) }

func (c06) ID() string { return "C06" }

func (c06) Rule() string {
	return "each run: seeded tree (hostile alphabet in 2/3 of the runs for well-formedness, regular alphabet in 1/3 for congruence), observed in its local state and, after each hop of a " +
		"route over knowing and unknowing processes, in its decoded and opaque states; oracles: redact %v/%s/%+v have balanced, non-nested markers, balanced within every line; " +
		"for regular strings stripping markers gives exactly the fmt rendering via Formattable; %q/%x/%X through redact show no unsafe token (plain or hex) outside markers; " +
		"in 1/6 of the runs an unrelated formatting call whose method panics half-way (swallowed by fmt/redact) is made between two renderings of the same error, which must be equal; " +
		"distinct = (alphabet x constructor-shape signature x profile sequence x route length); non-trivial = >= 2 layers"
}

// markerProblem checks balance, nesting and per-line balance of redaction markers.
func markerProblem(s string) string {
	open := false
	line := 1
	for _, r := range s {
		switch r {
		case '‹':
			if open {
				return fmt.Sprintf("nested open marker on line %d", line)
			}
			open = true
		case '›':
			if !open {
				return fmt.Sprintf("close marker without open on line %d", line)
			}
			open = false
		case '\n':
			if open {
				return fmt.Sprintf("marker pair spans the end of line %d", line)
			}
			line++
		}
	}
	if open {
		return "unclosed marker at end"
	}
	return ""
}

// outsideMarkers returns s with every ‹...› span removed.
func outsideMarkers(s string) string {
	var b strings.Builder
	open := false
	for _, r := range s {
		switch {
		case r == '‹':
			open = true
		case r == '›':
			open = false
		case !open:
			b.WriteRune(r)
		}
	}
	return b.String()
}

func (c06) Run(t *tape.Tape, tier Tier) *Result {
	res := &Result{}
	alpha := gen.Hostile
	congruence := false
	if t.Draw(3) == 2 {
		// marker-free inputs (the empty string included) for congruence
		alpha = gen.RegularE
		congruence = true
	}
	ts := newTaint(t, tier, res, alpha, true, "C06")
	// fault: between two renderings of the same error, an unrelated
	// formatting call fails half-way (its method panics after printing part of
	// its output; fmt/redact swallow the panic): the second rendering must
	// equal the first
	poisoned := t.Bool(1, 6)
	var unsafe []gen.Token
	for _, tok := range ts.tokens {
		if !tok.Safe && !tok.Neutral {
			unsafe = append(unsafe, tok)
		}
	}
	ts.run(res, "C06", func(e error, where string, p *world.Process, wire []byte) {
		state := "local"
		if p.ID != 0 || where != "origin (local)" {
			state = "decoded"
		}
		top := fmt.Sprintf("%T", e)
		if strings.Contains(top, "opaque") {
			state = "opaque"
		}
		res.count("state:"+state, 1)
		for _, verb := range []string{"%v", "%s", "%+v"} {
			r := obs.Red(verb, e)
			if obs.IsPanic(r) {
				continue
			}
			ts.sim.Logf("red %s %d", verb, len(r))
			if poisoned {
				plain1 := obs.Fmt(verb, e)
				poison(t)
				ts.sim.Stats.Faults["formatter-panic"]++
				if r2 := obs.Red(verb, e); r2 != r {
					res.add(Violation{Prop: "C06", Oracle: "rendering-after-failed-call:" + verb, Culprit: "redactable", Expected: short(fmt.Sprintf("%q", r)), Observed: short(fmt.Sprintf("%q", r2)), Where: where})
				}
				poison(t)
				ts.sim.Stats.Faults["formatter-panic"]++
				if plain2 := obs.Fmt(verb, e); plain2 != plain1 {
					res.add(Violation{Prop: "C06", Oracle: "rendering-after-failed-call:" + verb, Culprit: "plain", Expected: short(fmt.Sprintf("%q", plain1)), Observed: short(fmt.Sprintf("%q", plain2)), Where: where})
				}
			}
			if prob := markerProblem(r); prob != "" {
				res.add(Violation{Prop: "C06", Oracle: "well-formed:" + verb, Culprit: markerCulprit(r, prob), Expected: "balanced, non-nested markers on every line", Observed: prob + ": " + short(fmt.Sprintf("%q", r)), Where: where})
			}
			if congruence {
				plain := obs.Fmt(verb, e)
				stripped := obs.S(func() string { return redact.RedactableString(r).StripMarkers() })
				if stripped != plain && !obs.IsPanic(plain) {
					// report every differing line pair (so that a recorded finding
					// is recognised line by line, not on a truncated rendering)
					pl, sl := strings.Split(plain, "\n"), strings.Split(stripped, "\n")
					if len(pl) != len(sl) {
						res.add(Violation{Prop: "C06", Oracle: "congruent:" + verb, Culprit: "line-count", Config: ts.note, Expected: short(fmt.Sprintf("%q", plain)), Observed: short(fmt.Sprintf("%q", stripped)), Where: where})
					} else {
						for li := range pl {
							if pl[li] != sl[li] {
								res.add(Violation{Prop: "C06", Oracle: "congruent:" + verb, Culprit: "line", Config: ts.note, Expected: fmt.Sprintf("%q", pl[li]), Observed: fmt.Sprintf("%q", sl[li]), Where: fmt.Sprintf("%s, line %d", where, li+1)})
							}
						}
					}
				}
			}
		}
		if r := obs.S(func() string { return string(redact.Sprint(e)) }); !obs.IsPanic(r) {
			if prob := markerProblem(r); prob != "" {
				res.add(Violation{Prop: "C06", Oracle: "well-formed:Sprint", Culprit: markerCulprit(r, prob), Expected: "balanced, non-nested markers on every line", Observed: prob + ": " + short(fmt.Sprintf("%q", r)), Where: where})
			}
		}
		// unsupported verbs are refused rather than rendered unsafely
		for _, verb := range []string{"%q", "%x", "%X"} {
			r := obs.Red(verb, e)
			if obs.IsPanic(r) {
				continue
			}
			out := outsideMarkers(r)
			lower := strings.ToLower(out)
			for _, tok := range unsafe {
				hx := hex.EncodeToString([]byte(tok.Tok))
				if strings.Contains(out, tok.Tok) || strings.Contains(lower, hx) {
					res.add(Violation{Prop: "C06", Oracle: "unsupported-verb-unsafe:" + verb, Culprit: kindOfToken(tok), Expected: "token " + tok.Tok + " refused or enclosed in markers", Observed: short(fmt.Sprintf("%q", r)), Where: where})
				}
			}
		}
	})
	res.Nontrivial = ts.spec.Size() >= 2
	res.Key = fmt.Sprintf("%d|%s|%s|%d", alpha, ts.spec.Shape(), ts.prof, len(ts.route))
	return res
}

// markerCulprit gives a stable locator for a marker problem: the problem
// class (without line numbers).
func markerCulprit(r, prob string) string {
	switch {
	case strings.HasPrefix(prob, "nested"):
		return "nested"
	case strings.HasPrefix(prob, "close"):
		return "close-without-open"
	case strings.HasPrefix(prob, "marker pair spans"):
		return "spans-line"
	}
	return "unclosed"
}

// ---- C12 ---------------------------------------------------------------

type c12 struct{}

func init() { register(c12{}) }

func (c12) ID() string { return "C12" }

func (c12) Rule() string {
	return "each run: seeded tree over the regular alphabet where every string entering through a channel the library declares safe carries a unique token; observed locally and " +
		"after every hop between knowing processes; oracle: every safe token (not under a Mark reference), every layer's type name, every frame of every captured stack and every well-known " +
		"sentinel text the origin's report shows unredacted occurs in the Sentry event/extras or in GetAllSafeDetails, also when asked a second time; distinct = (constructor-shape signature x route length); non-trivial = at least one safe token and >= 2 layers"
}

func (c12) Run(t *tape.Tape, tier Tier) *Result {
	res := &Result{}
	alpha := gen.Regular
	if t.Draw(4) == 3 {
		// constant messages and Safe() arguments stay declared safe whatever
		// characters they contain
		alpha = gen.Hostile
	}
	ts := newTaint(t, tier, res, alpha, false, "C12")
	var safe []gen.Token
	for _, tok := range ts.tokens {
		if tok.Safe && !tok.Neutral && !tok.UnderMark {
			safe = append(safe, tok)
		}
	}
	// type names and innermost stack functions of the visible layers at the origin
	origin := obs.Tree(ts.e0, true)
	// texts of well-known sentinel leaves (not under a Mark reference); those
	// the library shows unredacted in the origin's report are "declared safe"
	var sentinelTexts, safeSentinels []string
	var walkS func(n *gen.Node, underMark bool)
	walkS = func(n *gen.Node, underMark bool) {
		if n.K == gen.LSentinel && !underMark {
			sentinelTexts = append(sentinelTexts, gen.Sentinels[n.N[0]].Error())
		}
		for _, k := range n.Kids {
			walkS(k, underMark)
		}
		for _, h := range n.Hid {
			walkS(h, underMark || n.K == gen.WMark)
		}
	}
	walkS(ts.spec, false)
	ts.run(res, "C12", func(e error, where string, p *world.Process, wire []byte) {
		// safe details are read first, the report (which formats the error) afterwards
		all, _ := obs.AllSafeDetails(e)
		ev, extras, pn := obs.Report(e)
		if pn != "" {
			return
		}
		hay := ev + "\x1e" + strings.Join(all, "\x1e")
		for k, v := range extras {
			hay += "\x1e" + k + "=" + v
		}
		ts.sim.Logf("report %d", len(hay))
		// asking a second time gives the same answer (building a report or
		// reading the details consumes nothing)
		all2, _ := obs.AllSafeDetails(e)
		ev2, extras2, _ := obs.Report(e)
		hay2 := ev2 + "\x1e" + strings.Join(all2, "\x1e")
		for k, v := range extras2 {
			hay2 += "\x1e" + k + "=" + v
		}
		if len(hay2) != len(hay) {
			for _, tok := range safe {
				if strings.Contains(hay, tok.Tok) && !strings.Contains(hay2, tok.Tok) {
					res.add(Violation{Prop: "C12", Oracle: "safe-token-retained-when-asked-again", Culprit: kindOfToken(tok) + hiddenSuffix(tok), Expected: "token " + tok.Tok + " in the second report or safe details as in the first", Observed: "absent", Where: where})
				}
			}
		}
		if where == "origin (local)" {
			for _, tx := range sentinelTexts {
				if strings.Contains(hay, tx) {
					safeSentinels = append(safeSentinels, tx)
				}
			}
			res.count("safe-sentinel-texts", len(safeSentinels))
		} else {
			for _, tx := range safeSentinels {
				if !strings.Contains(hay, tx) {
					res.add(Violation{Prop: "C12", Oracle: "sentinel-text-retained", Culprit: tx, Expected: "sentinel text (unredacted in the origin's report) in report or safe details", Observed: "absent", Where: where})
				}
			}
		}
		for _, tok := range safe {
			if !strings.Contains(hay, tok.Tok) {
				res.add(Violation{Prop: "C12", Oracle: "safe-token-retained", Culprit: kindOfToken(tok) + hiddenSuffix(tok), Expected: "token " + tok.Tok + " in report or safe details", Observed: "absent", Where: where})
			}
		}
		types := extras["error types"]
		for _, n := range origin {
			if n.TypeName != "" && !strings.Contains(types, n.TypeName) {
				res.add(Violation{Prop: "C12", Oracle: "type-name-retained", Culprit: typeOfLayer(n), Expected: n.TypeName + " in the 'error types' extra", Observed: short(types), Where: where})
			}
			if n.Stack != "" && n.Stack != "(empty)" {
				// every frame of the captured stack (function and line) must be in the event
				for _, line := range strings.Split(strings.TrimSpace(n.Stack), "\n") {
					f := strings.Split(line, "|")
					if len(f) < 5 || f[1] == "" {
						continue
					}
					needle := fmt.Sprintf(`"function":"%s"`, jsonEsc(f[1]))
					lineno := fmt.Sprintf(`"lineno":%s`, f[4])
					if !strings.Contains(ev, needle) || !strings.Contains(ev, lineno) {
						res.add(Violation{Prop: "C12", Oracle: "stack-frame-retained", Culprit: typeOfLayer(n), Expected: "frame " + f[1] + ":" + f[4] + " in the event's frames", Observed: "absent", Where: where})
						break
					}
				}
			}
		}
	})
	res.count("safe-tokens", len(safe))
	res.Nontrivial = len(safe) >= 1 && ts.spec.Size() >= 2
	res.Key = fmt.Sprintf("%s|%d", ts.spec.Shape(), len(ts.route))
	return res
}

func hiddenSuffix(tok gen.Token) string {
	s := ""
	if tok.UnderHidden {
		s += "(hidden)"
	}
	if tok.UnderMulti {
		s += "(in-branch)"
	}
	return s
}

func jsonEsc(s string) string {
	// encoding/json escapes <, > and & as \u003c, \u003e and \u0026
	bs := "\\"
	s = strings.ReplaceAll(s, "<", bs+"u003c")
	s = strings.ReplaceAll(s, ">", bs+"u003e")
	s = strings.ReplaceAll(s, "&", bs+"u0026")
	return s
}

var _ = errors.New
