// Package tape implements the recorded choice tape from which every random
// decision of a simulated run is drawn, and the shrinker that minimises it.
//
// While searching, values come from a splitmix64 PRNG and are appended to
// the tape; while replaying or shrinking they are read back from the tape
// (an exhausted tape yields 0, the "simplest" choice everywhere).
package tape

import "fmt"

// SplitMix is a splitmix64 PRNG.
type SplitMix struct{ s uint64 }

// NewSplitMix seeds a generator.
func NewSplitMix(seed uint64) *SplitMix { return &SplitMix{s: seed} }

// Next returns the next 64 random bits.
func (r *SplitMix) Next() uint64 {
	r.s += 0x9e3779b97f4a7c15
	z := r.s
	z = (z ^ (z >> 30)) * 0xbf58476d1ce4e5b9
	z = (z ^ (z >> 27)) * 0x94d049bb133111eb
	return z ^ (z >> 31)
}

// Mix derives a run seed from the base seed, a property id and a run index.
func Mix(seed uint64, prop string, run int) uint64 {
	h := seed ^ 0x51afd7ed558ccd
	for _, c := range []byte(prop) {
		h = (h ^ uint64(c)) * 0x100000001b3
	}
	r := NewSplitMix(h ^ (uint64(run)+1)*0x9e3779b97f4a7c15)
	r.Next()
	return r.Next()
}

// Tape is a sequence of bounded choices.
type Tape struct {
	rng    *SplitMix // nil when replaying
	vals   []uint32
	pos    int
	Labels []string // optional, parallel to vals when recording with labels
	label  bool
}

// NewRecording returns a tape that draws from a PRNG and records.
func NewRecording(seed uint64) *Tape { return &Tape{rng: NewSplitMix(seed)} }

// NewReplay returns a tape that replays the given values.
func NewReplay(vals []uint32) *Tape {
	c := make([]uint32, len(vals))
	copy(c, vals)
	return &Tape{vals: c}
}

// Values returns the choices consumed so far (recording) or the whole
// tape, truncated to what was consumed (replay).
func (t *Tape) Values() []uint32 {
	n := t.pos
	if n > len(t.vals) {
		n = len(t.vals)
	}
	c := make([]uint32, n)
	copy(c, t.vals[:n])
	return c
}

// Pos returns the number of draws so far.
func (t *Tape) Pos() int { return t.pos }

// Draw returns a value in [0, n). n <= 0 returns 0 without consuming.
func (t *Tape) Draw(n int) int {
	if n <= 1 {
		// Still consume a slot so that tapes stay aligned when a bound
		// changes from 1 to 2 between shrink candidates? No: bounds are
		// a function of earlier draws only, so alignment is preserved
		// without it; not consuming keeps tapes short.
		return 0
	}
	var v uint32
	if t.rng != nil {
		v = uint32(t.rng.Next() % uint64(n))
		t.vals = append(t.vals, v)
	} else if t.pos < len(t.vals) {
		v = t.vals[t.pos] % uint32(n)
	}
	t.pos++
	return int(v)
}

// Bool returns true with probability num/den.
func (t *Tape) Bool(num, den int) bool {
	// "false" must be the simplest choice (0).
	return t.Draw(den) >= den-num
}

// Range returns a value in [lo, hi].
func (t *Tape) Range(lo, hi int) int {
	if hi <= lo {
		return lo
	}
	return lo + t.Draw(hi-lo+1)
}

// Weighted draws an index according to integer weights; index 0 is the
// simplest. Zero weights are never chosen (if all are zero, returns 0).
func (t *Tape) Weighted(w []int) int {
	tot := 0
	for _, x := range w {
		tot += x
	}
	if tot == 0 {
		return 0
	}
	v := t.Draw(tot)
	for i, x := range w {
		if v < x {
			return i
		}
		v -= x
	}
	return len(w) - 1
}

// Shrink minimises vals while pred keeps returning true. pred must be
// deterministic. budget bounds the number of pred evaluations.
func Shrink(vals []uint32, budget int, pred func([]uint32) bool) ([]uint32, int) {
	cur := make([]uint32, len(vals))
	copy(cur, vals)
	used := 0
	try := func(c []uint32) bool {
		if used >= budget {
			return false
		}
		used++
		if pred(c) {
			cur = c
			return true
		}
		return false
	}
	improved := true
	for improved && used < budget {
		improved = false
		// 1. truncate
		for n := len(cur) / 2; n >= 1; n /= 2 {
			for len(cur) > n && try(append([]uint32(nil), cur[:len(cur)-n]...)) {
				improved = true
			}
		}
		// 2. delete spans
		for span := 8; span >= 1; span /= 2 {
			for i := 0; i+span <= len(cur); {
				c := append(append([]uint32(nil), cur[:i]...), cur[i+span:]...)
				if try(c) {
					improved = true
				} else {
					i++
				}
				if used >= budget {
					break
				}
			}
		}
		// 3. zero spans and single values
		for span := 4; span >= 1; span /= 2 {
			for i := 0; i+span <= len(cur); i++ {
				allZero := true
				for j := i; j < i+span; j++ {
					if cur[j] != 0 {
						allZero = false
					}
				}
				if allZero {
					continue
				}
				c := append([]uint32(nil), cur...)
				for j := i; j < i+span; j++ {
					c[j] = 0
				}
				if try(c) {
					improved = true
				}
				if used >= budget {
					break
				}
			}
		}
		// 4. halve / decrement values
		for i := 0; i < len(cur) && used < budget; i++ {
			for cur[i] > 0 {
				c := append([]uint32(nil), cur...)
				c[i] = cur[i] / 2
				if try(c) {
					improved = true
					continue
				}
				c = append([]uint32(nil), cur...)
				c[i] = cur[i] - 1
				if try(c) {
					improved = true
					continue
				}
				break
			}
		}
	}
	return cur, used
}

// String renders a tape compactly.
func String(vals []uint32) string { return fmt.Sprint(vals) }
