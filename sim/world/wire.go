package world

import (
	"fmt"
	"strings"

	"github.com/cockroachdb/errors/errorspb"
	"github.com/gogo/protobuf/types"
)

// WireNode is one node of an encoded error on the wire.
type WireNode struct {
	Path    string // same path scheme as obs.Tree; nested payload errors get "<path>@p..."
	Leaf    *errorspb.EncodedErrorLeaf
	Wrapper *errorspb.EncodedWrapper
	Nested  bool // sits inside a payload (barrier / secondary)
}

// Details returns the details of the node.
func (w *WireNode) Details() *errorspb.EncodedErrorDetails {
	if w.Leaf != nil {
		return &w.Leaf.Details
	}
	return &w.Wrapper.Details
}

// Message returns the message field.
func (w *WireNode) Message() string {
	if w.Leaf != nil {
		return w.Leaf.Message
	}
	return w.Wrapper.Message
}

// Family returns the family name.
func (w *WireNode) Family() string { return w.Details().ErrorTypeMark.FamilyName }

const encodedErrorURL = "cockroach.errorspb.EncodedError"

// IsEncodedErrorAny reports whether an Any carries a nested EncodedError.
func IsEncodedErrorAny(a *types.Any) bool {
	return a != nil && strings.HasSuffix(a.TypeUrl, "/"+encodedErrorURL)
}

// WalkWire visits the nodes of an encoded error, pre-order. With deep set,
// nested EncodedError payloads (barriers, secondary errors) are unpacked and
// visited too. It returns false if the message is not structurally complete
// (some error has neither leaf nor wrapper set).
func WalkWire(enc *errorspb.EncodedError, deep bool, f func(*WireNode)) (complete bool) {
	complete = true
	var walk func(e *errorspb.EncodedError, path string, nested bool)
	walk = func(e *errorspb.EncodedError, path string, nested bool) {
		var n *WireNode
		switch {
		case e.GetWrapper() != nil:
			n = &WireNode{Path: path, Wrapper: e.GetWrapper(), Nested: nested}
		case e.GetLeaf() != nil:
			n = &WireNode{Path: path, Leaf: e.GetLeaf(), Nested: nested}
		default:
			complete = false
			return
		}
		if f != nil {
			f(n)
		}
		if deep || true {
			// Completeness is always checked through payloads that resolve
			// to EncodedError, since decoders recurse into them.
			if a := n.Details().FullDetails; IsEncodedErrorAny(a) {
				var inner errorspb.EncodedError
				if err := inner.Unmarshal(a.Value); err == nil {
					if deep {
						walk(&inner, path+"@p", true)
					} else {
						save := f
						f = nil
						walk(&inner, path+"@p", true)
						f = save
					}
				}
			}
		}
		if n.Wrapper != nil {
			walk(&n.Wrapper.Cause, path+"c", nested)
		} else {
			for i, c := range n.Leaf.MultierrorCauses {
				if c == nil {
					complete = false
					continue
				}
				walk(c, fmt.Sprintf("%s%d", path, i), nested)
			}
		}
	}
	walk(enc, "", false)
	return
}

// ParseWire unmarshals wire bytes.
func ParseWire(data []byte) (*errorspb.EncodedError, error) {
	var enc errorspb.EncodedError
	if err := enc.Unmarshal(data); err != nil {
		return nil, err
	}
	return &enc, nil
}

// RenameSuffix is appended to family names to make a type unknown to a
// receiver without touching its registries (the hook-free simulation of an
// unknowing process).
const RenameSuffix = "#u"

// RenameFamilies rewrites family names on the wire: with add set, every
// family for which unknown() holds gets RenameSuffix appended (recursively
// through nested EncodedError payloads); without, the suffix is removed
// again. Explicit marks inside MarkPayload are data, not type keys, and are
// left alone.
func RenameFamilies(data []byte, unknown func(string) bool, add bool) ([]byte, error) {
	return RenameFamiliesAndPayloads(data, unknown, add, false)
}

// RenameFamiliesAndPayloads is RenameFamilies; with payloads set, the type
// URL of the structured payload of every renamed node is renamed as well: a
// program that does not contain an error type does not contain the protobuf
// message of its payload either.
func RenameFamiliesAndPayloads(data []byte, unknown func(string) bool, add, payloads bool) ([]byte, error) {
	enc, err := ParseWire(data)
	if err != nil {
		return nil, err
	}
	renameTree(enc, unknown, add, payloads)
	return enc.Marshal()
}

func renameTree(e *errorspb.EncodedError, unknown func(string) bool, add, payloads bool) {
	var d *errorspb.EncodedErrorDetails
	switch {
	case e.GetWrapper() != nil:
		w := e.GetWrapper()
		d = &w.Details
		renameTree(&w.Cause, unknown, add, payloads)
	case e.GetLeaf() != nil:
		l := e.GetLeaf()
		d = &l.Details
		for _, c := range l.MultierrorCauses {
			if c != nil {
				renameTree(c, unknown, add, payloads)
			}
		}
	default:
		return
	}
	fam := d.ErrorTypeMark.FamilyName
	if add {
		if unknown(fam) {
			d.ErrorTypeMark.FamilyName = fam + RenameSuffix
			if payloads && d.FullDetails != nil && !IsEncodedErrorAny(d.FullDetails) {
				d.FullDetails = &types.Any{TypeUrl: d.FullDetails.TypeUrl + RenameSuffix, Value: d.FullDetails.Value}
			}
		}
	} else {
		d.ErrorTypeMark.FamilyName = strings.TrimSuffix(fam, RenameSuffix)
		if payloads && d.FullDetails != nil && strings.HasSuffix(d.FullDetails.TypeUrl, RenameSuffix) {
			d.FullDetails = &types.Any{TypeUrl: strings.TrimSuffix(d.FullDetails.TypeUrl, RenameSuffix), Value: d.FullDetails.Value}
		}
	}
	if IsEncodedErrorAny(d.FullDetails) {
		var inner errorspb.EncodedError
		if err := inner.Unmarshal(d.FullDetails.Value); err == nil {
			renameTree(&inner, unknown, add, payloads)
			if b, err := inner.Marshal(); err == nil {
				d.FullDetails = &types.Any{TypeUrl: d.FullDetails.TypeUrl, Value: b}
			}
		}
	}
}
