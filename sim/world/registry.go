// Package world is the simulated cluster: processes with their own type
// registries, the transport that carries real protobuf bytes between them,
// and the fault injector.
package world

import (
	"sort"
	"strings"
	"syscall"

	_ "errsim/gen" // harness types register their codecs in init()

	"github.com/cockroachdb/errors/errbase"
	_ "github.com/cockroachdb/errors/extgrpc" // registers gRPC codecs
	_ "github.com/cockroachdb/errors/exthttp" // registers HTTP codecs
)

// Base is the registry set of a process running the full current code:
// everything registered by init() functions of the library, its extension
// packages and the harness.
var Base *errbase.VerifRegistries

// baseKeys is the sorted union of the keys of all registries in Base.
var baseKeys []string

// InitBase snapshots the live registries. Must be called once, from main,
// before any simulated process is created.
func InitBase() {
	Base = errbase.VerifSnapshotRegistries()
	set := map[string]bool{}
	for k := range Base.LeafEncoders {
		set[string(k)] = true
	}
	for k := range Base.Encoders {
		set[string(k)] = true
	}
	for k := range Base.LeafDecoders {
		set[string(k)] = true
	}
	for k := range Base.Decoders {
		set[string(k)] = true
	}
	for k := range Base.MultiCauseDecoders {
		set[string(k)] = true
	}
	baseKeys = nil
	for k := range set {
		baseKeys = append(baseKeys, k)
	}
	sort.Strings(baseKeys)
}

// Keys returns the sorted union of all registered type keys.
func Keys() []string { return baseKeys }

var (
	keyErrno       = string(errbase.GetTypeKey(syscall.Errno(0)))
	keyOpaqueErrno = string(errbase.GetTypeKey(&errbase.OpaqueErrno{}))
)

// Profile is the type knowledge of a simulated process.
type Profile struct {
	Name    string
	Reg     *errbase.VerifRegistries
	Unknown map[string]bool // keys of Base this process lacks
}

// Full returns the profile of a process that knows everything.
func Full() *Profile {
	return &Profile{Name: "full", Reg: Base.Clone(), Unknown: map[string]bool{}}
}

// Minus returns a profile lacking the given keys.
func Minus(name string, removed []string) *Profile {
	p := &Profile{Name: name, Reg: Base.Clone(), Unknown: map[string]bool{}}
	// the stand-in for an errno of another platform is registered together
	// with the errno adapter (same file of errbase): a process has both or none
	rm := map[string]bool{}
	for _, k := range removed {
		rm[k] = true
	}
	if rm[keyErrno] != rm[keyOpaqueErrno] {
		if rm[keyErrno] {
			removed = append(append([]string(nil), removed...), keyOpaqueErrno)
		} else {
			kept := removed[:0:0]
			for _, k := range removed {
				if k != keyOpaqueErrno {
					kept = append(kept, k)
				}
			}
			removed = kept
		}
	}
	for _, k := range removed {
		tk := errbase.TypeKey(k)
		delete(p.Reg.LeafEncoders, tk)
		delete(p.Reg.Encoders, tk)
		delete(p.Reg.LeafDecoders, tk)
		delete(p.Reg.Decoders, tk)
		delete(p.Reg.MultiCauseDecoders, tk)
		p.Unknown[k] = true
	}
	return p
}

// Knows reports whether the profile can decode the given family natively.
func (p *Profile) Knows(family string) bool { return !p.Unknown[family] }

// IsFull reports whether nothing was removed.
func (p *Profile) IsFull() bool { return len(p.Unknown) == 0 }

// Install makes this profile's registries the live ones.
func (p *Profile) Install() { errbase.VerifInstallRegistries(p.Reg) }

// ShortKey abbreviates a type key for display.
func ShortKey(k string) string {
	if i := strings.LastIndexByte(k, '/'); i >= 0 {
		return k[i+1:]
	}
	return k
}
