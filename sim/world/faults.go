package world

import (
	"sort"
	"strings"

	"errsim/gen"
	"errsim/obs"
	"errsim/tape"

	"github.com/cockroachdb/errors/errorspb"
	"github.com/cockroachdb/errors/extgrpc"
	"github.com/cockroachdb/errors/exthttp"
	gogorpc "github.com/gogo/googleapis/google/rpc"
	"github.com/gogo/protobuf/proto"
	"github.com/gogo/protobuf/types"
)

// Exemplar is a valid wire node for a family, obtained by encoding a real
// error of that type at a fully knowing process.
type Exemplar struct {
	Family    string
	IsWrapper bool
	Msg       string
	Details   errorspb.EncodedErrorDetails
	MsgType   errorspb.MessageType
	NCauses   int
}

var exemplars map[string]*Exemplar
var payloadCatalog []*types.Any

// Exemplars returns one valid wire node per family that any constructor of
// the generator produces (built once, deterministically).
func Exemplars() map[string]*Exemplar {
	if exemplars != nil {
		return exemplars
	}
	exemplars = map[string]*Exemplar{}
	Full().Install()
	for k := gen.Kind(0); k < gen.NumKinds; k++ {
		if k == gen.LGiven {
			continue // stands for a value handed in by a scenario
		}
		g := gen.New(tape.NewReplay(nil), gen.Config{Alpha: gen.Plain, RootKinds: []gen.Kind{k}, MaxNodes: 6, NoErrArgs: true})
		spec := g.Tree()
		data, p := obs.Encode(gen.Build(spec))
		if p != "" {
			continue
		}
		enc, err := ParseWire(data)
		if err != nil {
			continue
		}
		WalkWire(enc, true, func(w *WireNode) {
			if _, ok := exemplars[w.Family()]; ok {
				return
			}
			ex := &Exemplar{Family: w.Family(), IsWrapper: w.Wrapper != nil, Msg: w.Message(), Details: *w.Details()}
			if w.Wrapper != nil {
				ex.MsgType = w.Wrapper.MessageType
			} else {
				ex.NCauses = len(w.Leaf.MultierrorCauses)
			}
			exemplars[w.Family()] = ex
		})
	}
	return exemplars
}

func mustAny(m proto.Message) *types.Any {
	a, err := types.MarshalAny(m)
	if err != nil {
		panic(err)
	}
	return a
}

// SimpleLeaf returns a valid encoded leaf (a plain errors.New-like error string).
func SimpleLeaf(msg string) errorspb.EncodedError {
	return errorspb.EncodedError{Error: &errorspb.EncodedError_Leaf{Leaf: &errorspb.EncodedErrorLeaf{
		Message: msg,
		Details: errorspb.EncodedErrorDetails{
			OriginalTypeName: "errors/*errors.errorString",
			ErrorTypeMark:    errorspb.ErrorTypeMark{FamilyName: "errors/*errors.errorString"},
		},
	}}}
}

// PayloadCatalog lists one valid payload of every payload message type the
// library's codecs use (sorted by type URL).
func PayloadCatalog() []*types.Any {
	if payloadCatalog != nil {
		return payloadCatalog
	}
	inner := SimpleLeaf("inner")
	payloadCatalog = []*types.Any{
		mustAny(&errorspb.StringPayload{Msg: "sp"}),
		mustAny(&errorspb.StringsPayload{Details: []string{"a", "b", "c"}}),
		mustAny(&errorspb.ErrnoPayload{OrigErrno: 2, Arch: "linux:amd64", IsNotExist: true}),
		mustAny(&errorspb.ErrnoPayload{OrigErrno: 2, Arch: "plan9:mips"}),
		mustAny(&errorspb.MarkPayload{Msg: "m", Types: []errorspb.ErrorTypeMark{{FamilyName: "f"}}}),
		mustAny(&errorspb.TagsPayload{Tags: []errorspb.TagPayload{{Tag: "k", Value: "v"}}}),
		mustAny(&inner),
		mustAny(&exthttp.EncodedHTTPCode{Code: 404}),
		mustAny(&extgrpc.EncodedGrpcCode{Code: 5}),
		mustAny(&gogorpc.Status{Code: 5, Message: "st"}),
		mustAny(&errorspb.TestError{}),
	}
	sort.SliceStable(payloadCatalog, func(i, j int) bool { return payloadCatalog[i].TypeUrl < payloadCatalog[j].TypeUrl })
	return payloadCatalog
}

// ShortPayload returns a payload of the same message type as a with its
// repeated fields emptied (nil if the type has no repeated field we index).
func ShortPayload(a *types.Any, keep int) *types.Any {
	if a == nil {
		return nil
	}
	var d types.DynamicAny
	if err := types.UnmarshalAny(a, &d); err != nil {
		return nil
	}
	switch m := d.Message.(type) {
	case *errorspb.StringsPayload:
		if keep > len(m.Details) {
			keep = len(m.Details)
		}
		return mustAny(&errorspb.StringsPayload{Details: m.Details[:keep]})
	case *errorspb.MarkPayload:
		if keep > len(m.Types) {
			keep = len(m.Types)
		}
		return mustAny(&errorspb.MarkPayload{Msg: m.Msg, Types: m.Types[:keep]})
	case *errorspb.TagsPayload:
		if keep > len(m.Tags) {
			keep = len(m.Tags)
		}
		return mustAny(&errorspb.TagsPayload{Tags: m.Tags[:keep]})
	}
	return nil
}

// ForeignArchErrno rewrites every errno payload of an encoded error as if
// it had been sent by a peer of the same OS on another architecture whose
// errno numbering differs: the Arch field names that architecture and the
// number is remapped, while the text, the safe details and the predicate
// flags stay what the sender computed. A correct receiver keeps such an
// errno as an OpaqueErrno (text and predicates preserved) instead of
// reviving the number with its own table. It returns the number of payloads
// rewritten.
func ForeignArchErrno(data []byte) ([]byte, int) {
	enc, err := ParseWire(data)
	if err != nil {
		return data, 0
	}
	n := 0
	var walk func(e *errorspb.EncodedError)
	fix := func(d *errorspb.EncodedErrorDetails) {
		if d.FullDetails == nil {
			return
		}
		var da types.DynamicAny
		if err := types.UnmarshalAny(d.FullDetails, &da); err != nil {
			return
		}
		switch m := da.Message.(type) {
		case *errorspb.ErrnoPayload:
			goos := m.Arch
			if i := strings.IndexByte(goos, ':'); i >= 0 {
				goos = goos[:i]
			}
			m.Arch = goos + ":mips64"
			// the foreign table assigns other numbers: some collide with
			// numbers that mean something else here (and satisfy other
			// predicates), the rest are unused here
			switch m.OrigErrno {
			case 2: // ENOENT there is EEXIST's number here
				m.OrigErrno = 17
			case 17: // EEXIST -> EACCES
				m.OrigErrno = 13
			case 13, 1: // EACCES, EPERM -> ENOENT
				m.OrigErrno = 2
			default:
				m.OrigErrno += 40
			}
			d.FullDetails = mustAny(m)
			n++
		case *errorspb.EncodedError:
			walk(m)
			d.FullDetails = mustAny(m)
		}
	}
	walk = func(e *errorspb.EncodedError) {
		switch {
		case e.GetWrapper() != nil:
			fix(&e.GetWrapper().Details)
			walk(&e.GetWrapper().Cause)
		case e.GetLeaf() != nil:
			fix(&e.GetLeaf().Details)
			for _, c := range e.GetLeaf().MultierrorCauses {
				if c != nil {
					walk(c)
				}
			}
		}
	}
	walk(enc)
	if n == 0 {
		return data, 0
	}
	out, err := enc.Marshal()
	if err != nil {
		return data, 0
	}
	return out, n
}
