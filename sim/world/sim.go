package world

import (
	"container/heap"
	"context"
	"crypto/sha256"
	"encoding/hex"
	"fmt"
	"hash"

	"errsim/obs"
	"errsim/tape"

	"github.com/cockroachdb/errors/errbase"
)

// Process is a simulated process: an id and a registry profile.
type Process struct {
	ID   int
	Prof *Profile
}

// Msg is a message in flight.
type Msg struct {
	At, Seq int
	Flow    int   // which origin error this message carries
	Hop     int   // 1 for the first delivery
	Dst     int   // destination process
	Route   []int // remaining processes after Dst
	Data    []byte
	Dup     bool
	Path    []int // processes traversed so far, origin first
}

type msgHeap []*Msg

func (h msgHeap) Len() int { return len(h) }
func (h msgHeap) Less(i, j int) bool {
	if h[i].At != h[j].At {
		return h[i].At < h[j].At
	}
	return h[i].Seq < h[j].Seq
}
func (h msgHeap) Swap(i, j int)       { h[i], h[j] = h[j], h[i] }
func (h *msgHeap) Push(x interface{}) { *h = append(*h, x.(*Msg)) }
func (h *msgHeap) Pop() interface{} {
	old := *h
	n := len(old)
	x := old[n-1]
	*h = old[:n-1]
	return x
}

// Delivery is what a process holds after receiving a message.
type Delivery struct {
	Msg      *Msg
	Proc     *Process
	Err      error  // decoded error (nil if decoding panicked)
	Panic    string // non-empty if unmarshal/decode panicked or failed
	ReData   []byte // re-encoded bytes at this process (always computed)
	RePanic  string
	Step     int
	Forward  bool
	PrevData []byte
}

// Stats counts transport events and faults actually fired.
type Stats struct {
	Deliveries int
	Forwards   int
	Duplicates int
	Reorders   int
	Fanouts    int
	Steps      int
	Warnings   int // errbase warning function invocations (payload could not be unmarshalled)
	Faults     map[string]int
}

// Sim is one simulated run.
type Sim struct {
	T       *tape.Tape
	Procs   []*Process
	q       msgHeap
	now     int
	seq     int
	lastSeq int
	log     hash.Hash
	Stats   Stats
	// DupNum/DupDen: probability of duplicating a message.
	DupNum, DupDen int
	MaxDelay       int
	MaxDeliveries  int
	// OnDeliver is called after each delivery with the destination's
	// registries installed.
	OnDeliver func(d *Delivery)
	// OnFresh, if set, is called right after decoding, before anything else
	// (re-encoding included) has touched the decoded value.
	OnFresh func(d *Delivery)
	// ExerciseDen > 0: with probability 1/ExerciseDen a process logs,
	// reports and inspects a received error (obs.Exercise) before it
	// re-encodes it for forwarding.
	ExerciseDen int
	// Mutate, if set, may rewrite the bytes of a message at send time (fault injection).
	Mutate func(m *Msg) []byte
}

func init() {
	// the library's default warning function writes to the process log
	errbase.SetWarningFn(func(context.Context, string, ...interface{}) {})
}

// NewSim creates a simulation over the given tape.
func NewSim(t *tape.Tape) *Sim {
	s := &Sim{T: t, log: sha256.New(), DupNum: 1, DupDen: 8, MaxDelay: 4, MaxDeliveries: 64}
	s.Stats.Faults = map[string]int{}
	errbase.SetWarningFn(func(_ context.Context, _ string, _ ...interface{}) { s.Stats.Warnings++ })
	return s
}

// AddProcess adds a process.
func (s *Sim) AddProcess(p *Profile) *Process {
	pr := &Process{ID: len(s.Procs), Prof: p}
	s.Procs = append(s.Procs, pr)
	s.Logf("proc %d %s", pr.ID, p.Name)
	return pr
}

// Logf appends a line to the event log (hashed, never drawn from).
func (s *Sim) Logf(format string, args ...interface{}) {
	fmt.Fprintf(s.log, format, args...)
	s.log.Write([]byte{'\n'})
}

// LogDigest returns the SHA-256 of the event log so far.
func (s *Sim) LogDigest() string { return hex.EncodeToString(s.log.Sum(nil)) }

// Send schedules a message from process `from` to route[0], to be forwarded
// along the rest of the route.
func (s *Sim) Send(flow int, hop int, path []int, route []int, data []byte) {
	if len(route) == 0 {
		return
	}
	m := &Msg{Flow: flow, Hop: hop, Dst: route[0], Route: route[1:], Data: data,
		Path: append(append([]int(nil), path...), route[0])}
	if s.Mutate != nil {
		m.Data = s.Mutate(m)
	}
	s.enqueue(m)
	if s.T.Bool(s.DupNum, s.DupDen) {
		d := *m
		d.Dup = true
		s.Stats.Duplicates++
		s.enqueue(&d)
	}
}

func (s *Sim) enqueue(m *Msg) {
	s.seq++
	m.Seq = s.seq
	m.At = s.now + 1 + s.T.Draw(s.MaxDelay)
	heap.Push(&s.q, m)
}

// Run delivers messages until the queue is empty or the cap is reached.
func (s *Sim) Run() {
	for s.q.Len() > 0 && s.Stats.Deliveries < s.MaxDeliveries {
		m := heap.Pop(&s.q).(*Msg)
		s.now = m.At
		if m.Seq < s.lastSeq {
			s.Stats.Reorders++
		}
		s.lastSeq = m.Seq
		s.Stats.Steps++
		s.deliver(m)
	}
}

func (s *Sim) deliver(m *Msg) {
	p := s.Procs[m.Dst]
	p.Prof.Install()
	s.Stats.Deliveries++
	d := &Delivery{Msg: m, Proc: p, Step: s.Stats.Steps, PrevData: m.Data}
	d.Err, d.Panic = obs.Decode(m.Data)
	sum := sha256.Sum256(m.Data)
	s.Logf("deliver t=%d seq=%d flow=%d hop=%d dst=%d dup=%v len=%d sha=%x panic=%q",
		m.At, m.Seq, m.Flow, m.Hop, m.Dst, m.Dup, len(m.Data), sum[:8], d.Panic)
	if d.Err != nil && s.OnFresh != nil {
		s.OnFresh(d)
	}
	if d.Err != nil && s.ExerciseDen > 0 && s.T.Bool(1, s.ExerciseDen) {
		obs.Exercise(d.Err)
		s.Stats.Faults["observed-before-forwarding"]++
	}
	if d.Err != nil {
		d.ReData, d.RePanic = obs.Encode(d.Err)
	}
	d.Forward = len(m.Route) > 0 && !m.Dup && d.Err != nil && d.RePanic == ""
	if s.OnDeliver != nil {
		s.OnDeliver(d)
	}
	if d.Forward {
		s.Stats.Forwards++
		p.Prof.Install()
		s.Send(m.Flow, m.Hop+1, m.Path, m.Route, d.ReData)
	}
}

// At installs the registries of process i (for computing observations
// "at" that process outside a delivery).
func (s *Sim) At(i int) { s.Procs[i].Prof.Install() }
