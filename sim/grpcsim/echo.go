package grpcsim

import (
	"context"
	"net"
	"sync"
	"time"

	errgrpc "github.com/cockroachdb/errors/grpc"
	"github.com/cockroachdb/errors/grpc/middleware"
	"google.golang.org/grpc"
	"google.golang.org/grpc/codes"
	"google.golang.org/grpc/status"
)

// Cluster is a real gRPC server with the library's server interceptor and
// two clients (with and without the client interceptor) over the in-memory network.
type Cluster struct {
	L        *Listener
	srv      *grpc.Server
	conn     *grpc.ClientConn
	connRaw  *grpc.ClientConn
	Client   errgrpc.EchoerClient // through UnaryClientInterceptor
	ClientNo errgrpc.EchoerClient // without the client interceptor
	mu       sync.Mutex
	errs     map[string]error
}

// ServerPanicPrefix starts the message of the status a call fails with when
// the server side panicked.
const ServerPanicPrefix = "SERVER-PANIC: "

type ctxKey int

// EndContextAfterReply is a context key: when the value under it is a
// func(), the fault interceptor below the library's client interceptor calls
// it as soon as the transport has delivered the server's reply, i.e. the
// caller's context ends (a deadline fires, a sibling call cancels a shared
// context) between the arrival of the reply and its processing.
const EndContextAfterReply ctxKey = 1

func faultInterceptor(ctx context.Context, method string, req, reply interface{}, cc *grpc.ClientConn, invoker grpc.UnaryInvoker, opts ...grpc.CallOption) error {
	err := invoker(ctx, method, req, reply, cc, opts...)
	if end, ok := ctx.Value(EndContextAfterReply).(func()); ok {
		end()
	}
	return err
}

type echoServer struct{ c *Cluster }

// Echo returns the error registered for the request text.
func (s *echoServer) Echo(ctx context.Context, req *errgrpc.EchoRequest) (*errgrpc.EchoReply, error) {
	s.c.mu.Lock()
	err := s.c.errs[req.Text]
	s.c.mu.Unlock()
	return &errgrpc.EchoReply{Reply: "echoing: " + req.Text}, err
}

// NewCluster starts the server and dials the clients.
func NewCluster(seed uint64) (*Cluster, error) {
	c := &Cluster{L: NewListener(seed), errs: map[string]error{}}
	// a recovery middleware outside the library's interceptor, as services
	// run one: a panic in the interceptor fails the call instead of taking
	// the simulated server down
	recoverInt := func(ctx context.Context, req interface{}, info *grpc.UnaryServerInfo, handler grpc.UnaryHandler) (resp interface{}, err error) {
		defer func() {
			if r := recover(); r != nil {
				err = status.Errorf(codes.Internal, "%s%v", ServerPanicPrefix, r)
			}
		}()
		return handler(ctx, req)
	}
	c.srv = grpc.NewServer(grpc.ChainUnaryInterceptor(recoverInt, middleware.UnaryServerInterceptor))
	errgrpc.RegisterEchoerServer(c.srv, &echoServer{c})
	go c.srv.Serve(c.L)
	dial := func(opts ...grpc.DialOption) (*grpc.ClientConn, error) {
		opts = append(opts,
			grpc.WithDialer(func(string, time.Duration) (net.Conn, error) { return c.L.Dial() }),
			grpc.WithInsecure())
		return grpc.Dial("sim", opts...)
	}
	var err error
	if c.conn, err = dial(grpc.WithChainUnaryInterceptor(middleware.UnaryClientInterceptor, faultInterceptor)); err != nil {
		return nil, err
	}
	if c.connRaw, err = dial(); err != nil {
		return nil, err
	}
	c.Client = errgrpc.NewEchoerClient(c.conn)
	c.ClientNo = errgrpc.NewEchoerClient(c.connRaw)
	return c, nil
}

// Set registers the error the handler returns for a request id.
func (c *Cluster) Set(id string, err error) {
	c.mu.Lock()
	c.errs[id] = err
	c.mu.Unlock()
}

// Reset forgets all registered errors.
func (c *Cluster) Reset() {
	c.mu.Lock()
	c.errs = map[string]error{}
	c.mu.Unlock()
}

// Close stops everything.
func (c *Cluster) Close() {
	c.conn.Close()
	c.connRaw.Close()
	c.srv.Stop()
	c.L.Close()
}
