// Package grpcsim provides the in-memory network under the real gRPC stacks
// used for C20: a listener/conn pair whose writes are fragmented at offsets
// that are a function of (seed, direction, stream offset).
package grpcsim

import (
	"errors"
	"io"
	"net"
	"sync"
	"time"
)

type half struct {
	mu     sync.Mutex
	cond   *sync.Cond
	buf    []byte
	chunks []int
	closed bool
}

func newHalf() *half {
	h := &half{}
	h.cond = sync.NewCond(&h.mu)
	return h
}

// Conn is one end of an in-memory connection.
type Conn struct {
	r, w   *half
	seed   uint64
	dir    uint64
	offset uint64
	stats  *Stats
}

// Stats counts fragments.
type Stats struct {
	mu     sync.Mutex
	Chunks int
	Bytes  int
}

func mix(a, b, c uint64) uint64 {
	z := a ^ (b+0x9e3779b97f4a7c15)*0xbf58476d1ce4e5b9 ^ (c+0x94d049bb133111eb)*0x2545F4914F6CDD1D
	z = (z ^ (z >> 30)) * 0xbf58476d1ce4e5b9
	z = (z ^ (z >> 27)) * 0x94d049bb133111eb
	return z ^ (z >> 31)
}

// Write appends p to the peer's read buffer, cut into fragments.
func (c *Conn) Write(p []byte) (int, error) {
	c.w.mu.Lock()
	defer c.w.mu.Unlock()
	if c.w.closed {
		return 0, io.ErrClosedPipe
	}
	rest := len(p)
	for rest > 0 {
		// fragment sizes: mostly small, sometimes everything
		r := mix(c.seed, c.dir, c.offset)
		n := 1 + int(r%97)
		if r%5 == 0 {
			n = rest
		}
		if n > rest {
			n = rest
		}
		c.w.chunks = append(c.w.chunks, n)
		c.offset += uint64(n)
		rest -= n
		c.stats.mu.Lock()
		c.stats.Chunks++
		c.stats.Bytes += n
		c.stats.mu.Unlock()
	}
	c.w.buf = append(c.w.buf, p...)
	c.w.cond.Broadcast()
	return len(p), nil
}

// Read returns at most one fragment.
func (c *Conn) Read(p []byte) (int, error) {
	c.r.mu.Lock()
	defer c.r.mu.Unlock()
	for len(c.r.chunks) == 0 {
		if c.r.closed {
			return 0, io.EOF
		}
		c.r.cond.Wait()
	}
	n := c.r.chunks[0]
	if n > len(p) {
		n = len(p)
		c.r.chunks[0] -= n
	} else {
		c.r.chunks = c.r.chunks[1:]
	}
	copy(p, c.r.buf[:n])
	c.r.buf = c.r.buf[n:]
	return n, nil
}

// Close closes both directions.
func (c *Conn) Close() error {
	for _, h := range []*half{c.r, c.w} {
		h.mu.Lock()
		h.closed = true
		h.cond.Broadcast()
		h.mu.Unlock()
	}
	return nil
}

type addr struct{}

func (addr) Network() string { return "sim" }
func (addr) String() string  { return "sim" }

func (c *Conn) LocalAddr() net.Addr                { return addr{} }
func (c *Conn) RemoteAddr() net.Addr               { return addr{} }
func (c *Conn) SetDeadline(t time.Time) error      { return nil }
func (c *Conn) SetReadDeadline(t time.Time) error  { return nil }
func (c *Conn) SetWriteDeadline(t time.Time) error { return nil }

// Listener is an in-memory net.Listener.
type Listener struct {
	ch     chan net.Conn
	closed chan struct{}
	once   sync.Once
	Seed   uint64
	Stats  Stats
	n      uint64
	mu     sync.Mutex
}

// NewListener creates a listener whose connections fragment writes according to seed.
func NewListener(seed uint64) *Listener {
	return &Listener{ch: make(chan net.Conn, 16), closed: make(chan struct{}), Seed: seed}
}

// Accept implements net.Listener.
func (l *Listener) Accept() (net.Conn, error) {
	select {
	case c := <-l.ch:
		return c, nil
	case <-l.closed:
		return nil, errors.New("listener closed")
	}
}

// Close implements net.Listener.
func (l *Listener) Close() error { l.once.Do(func() { close(l.closed) }); return nil }

// Addr implements net.Listener.
func (l *Listener) Addr() net.Addr { return addr{} }

// Dial creates a connection pair and hands the server end to Accept.
func (l *Listener) Dial() (net.Conn, error) {
	l.mu.Lock()
	l.n++
	id := l.n
	l.mu.Unlock()
	a, b := newHalf(), newHalf()
	client := &Conn{r: a, w: b, seed: l.Seed, dir: id * 2, stats: &l.Stats}
	server := &Conn{r: b, w: a, seed: l.Seed, dir: id*2 + 1, stats: &l.Stats}
	select {
	case l.ch <- server:
		return client, nil
	case <-l.closed:
		return nil, errors.New("listener closed")
	}
}
