package gen

import (
	"fmt"
	"os"

	"errsim/tape"
)

// Config parameterises tree generation.
type Config struct {
	Alpha    Alphabet
	MaxDepth int // visible depth bound
	MaxNodes int // total node budget (visible + hidden)
	// Allow filters the constructors; nil allows all.
	Allow func(Kind) bool
	// Swarm: each run first draws which constructor groups are enabled.
	Swarm bool
	// RootKinds, if non-empty: the root is drawn from these.
	RootKinds []Kind
	// Boost multiplies the weight of kinds in these groups.
	Boost       Group
	BoostFactor int
	// HiddenLoud biases hidden sub-trees towards annotation-rich content.
	HiddenLoud bool
	// NoErrArgs disables error arguments to printf-style constructors.
	NoErrArgs bool
	// LongStrings: see StrGen.Long.
	LongStrings bool
	// NoEcho disables the string-correlation post-pass.
	NoEcho bool
	// EmptyOverride enables the wrapper kind whose full message is "".
	EmptyOverride bool
	// RichArgs: printf arguments and tag values of application types
	// (redact.SafeFormatter with an unsafe part, fmt.Stringer).
	RichArgs bool
	// ExtraArgs: an error argument may be passed without a verb for it.
	ExtraArgs bool
	// Alias: a multi-cause node may hold the same object in two branches.
	Alias bool
	// Verbs: printf-style constructors use other verbs than the default
	// ones for some arguments (%q, %#v, %+v, %x ...).
	Verbs bool
	// UserStack enables the application-defined wrapper with StackTrace().
	UserStack bool
}

// Gen generates trees.
type Gen struct {
	T       *tape.Tape
	SG      *StrGen
	Cfg     Config
	budget  int
	enabled [NumKinds]bool
	// Enabled groups after the swarm draw (for reporting).
	SwarmOff Group
}

// New returns a generator.
func New(t *tape.Tape, cfg Config) *Gen {
	g := &Gen{T: t, SG: &StrGen{T: t, Alpha: cfg.Alpha, Long: cfg.LongStrings}, Cfg: cfg}
	if g.Cfg.MaxDepth == 0 {
		g.Cfg.MaxDepth = 6
	}
	if g.Cfg.MaxNodes == 0 {
		g.Cfg.MaxNodes = 20
	}
	for k := Kind(0); k < NumKinds; k++ {
		g.enabled[k] = cfg.Allow == nil || cfg.Allow(k)
	}
	if !cfg.EmptyOverride {
		g.enabled[WUFullEmpty] = false
	}
	if !cfg.UserStack {
		g.enabled[WUStack] = false
	}
	if cfg.Swarm {
		// Each optional group is switched off with probability 1/4.
		// LNew/LGo/WWrap always stay on so that generation cannot get stuck.
		for _, grp := range []Group{GPkg, GOS, GNet, GGrpc, GUser, GBarrier, GSecondary, GMark, GMulti, GAnnot, GSentinel, GFmtArgs} {
			if t.Bool(1, 4) {
				g.SwarmOff |= grp
			}
		}
		for k := Kind(0); k < NumKinds; k++ {
			if kinds[k].Groups&g.SwarmOff != 0 && k != LNew && k != LGo && k != WWrap {
				g.enabled[k] = false
			}
		}
	}
	return g
}

// Tree draws one error tree.
func (g *Gen) Tree() *Node {
	g.budget = g.Cfg.MaxNodes
	var n *Node
	if len(g.Cfg.RootKinds) > 0 {
		k := g.Cfg.RootKinds[g.T.Draw(len(g.Cfg.RootKinds))]
		n = g.fill(k, 1, false)
	} else {
		n = g.node(1, false)
	}
	g.echo(n)
	return n
}

// echo correlates strings of the tree: with probability 1/3 one string slot
// is replaced by (a variation of) another slot's string of the same safety
// class, so that e.g. a wrapper's prefix equals or ends with its cause's
// text, two layers carry the same message, or a key is repeated. The
// overwritten slot loses its own token (it no longer exists anywhere).
func (g *Gen) echo(root *Node) {
	if g.Cfg.NoEcho || !g.T.Bool(1, 3) {
		return
	}
	type slot struct {
		s *Str
	}
	var slots []slot
	root.Walk(func(n *Node, _ bool) {
		if n.K == WOpErr || kinds[n.K].Tags {
			return
		}
		for i := range n.S {
			if n.S[i].V != "" {
				slots = append(slots, slot{&n.S[i]})
			}
		}
	})
	if len(slots) < 2 {
		return
	}
	a := slots[g.T.Draw(len(slots))].s
	var cands []*Str
	for _, x := range slots {
		if x.s != a && x.s.Safe == a.Safe && x.s.Neutral == a.Neutral {
			cands = append(cands, x.s)
		}
	}
	if len(cands) == 0 {
		return
	}
	b := cands[g.T.Draw(len(cands))]
	switch g.T.Draw(4) {
	case 0:
		a.V = b.V
	case 1:
		a.V = "x " + b.V
	case 2:
		a.V = b.V + " x"
	default:
		a.V = "x: " + b.V
	}
	a.Tok = ""
}

// Sub draws an additional independent tree with the given node budget.
func (g *Gen) Sub(maxNodes int) *Node {
	g.budget = maxNodes
	return g.node(1, false)
}

// Over draws 1..layers wrapper layers (any single-cause wrapper kind, with
// their own hidden sub-trees) on top of an LGiven leaf: what a relay adds to
// an error it received before passing it on.
func (g *Gen) Over(layers int) *Node {
	cur := &Node{K: LGiven}
	g.budget = 4 * layers
	for i := 0; i < layers; i++ {
		var w [NumKinds]int
		total := 0
		for k := Kind(0); k < NumKinds; k++ {
			if kinds[k].Arity == Wrap && g.enabled[k] && kinds[k].Weight > 0 && k != WUStack {
				w[k] = kinds[k].Weight
				total += w[k]
			}
		}
		if total == 0 {
			break
		}
		r := g.T.Draw(total)
		k := Kind(0)
		for ; k < NumKinds; k++ {
			if r < w[k] {
				break
			}
			r -= w[k]
		}
		g.budget += 3
		n := g.fill(k, 2, false)
		n.Kids = []*Node{cur}
		cur = n
	}
	return cur
}

func (g *Gen) weight(k Kind, depth int, hidden bool) int {
	if !g.enabled[k] {
		return 0
	}
	ki := &kinds[k]
	w := ki.Weight
	if w < 0 {
		return 0
	}
	need := 1 + ki.NHid
	if ki.Arity == Wrap {
		need++
	} else if ki.Arity == Multi {
		need += 2
	}
	if need > g.budget {
		return 0
	}
	if depth >= g.Cfg.MaxDepth && ki.Arity != Leaf {
		return 0
	}
	if depth >= g.Cfg.MaxDepth+1 && ki.NHid > 0 {
		return 0
	}
	if g.Cfg.Boost != 0 && ki.Groups&g.Cfg.Boost != 0 {
		w *= g.Cfg.BoostFactor
	}
	if hidden && g.Cfg.HiddenLoud && ki.Groups&(GAnnot|GSentinel) != 0 {
		w *= 4
	}
	// Favour growth near the root so that trees are not all trivial.
	if depth <= 2 && ki.Arity != Leaf {
		w *= 3
	}
	return w
}

func (g *Gen) node(depth int, hidden bool) *Node {
	var w [NumKinds]int
	for k := Kind(0); k < NumKinds; k++ {
		w[k] = g.weight(k, depth, hidden)
	}
	k := Kind(g.T.Weighted(w[:]))
	if w[k] == 0 {
		// Nothing affordable/enabled: fall back to the simplest leaf.
		k = LNew
	}
	return g.fill(k, depth, hidden)
}

func (g *Gen) fill(k Kind, depth int, hidden bool) *Node {
	ki := &kinds[k]
	n := &Node{K: k}
	g.budget--
	for _, c := range ki.Slots {
		var s Str
		switch c {
		case 'S':
			s = g.SG.Str(true)
			// Some safe slots may legitimately be empty (issue URL/detail).
			if (k == WIssueLink || k == LUnimpl || k == LUnimplf) && g.T.Bool(1, 6) {
				s = Str{V: "", Safe: true}
			}
		case 'U':
			s = g.SG.Str(false)
		default:
			s = g.SG.Str(false)
			s.Neutral = true
		}
		n.S = append(n.S, s)
	}
	for _, b := range ki.NInts {
		n.N = append(n.N, g.T.Draw(b))
	}
	if k == LUIsStd {
		// a foreign leaf that claims os.ErrNotExist and whose own text
		// contains, starts or ends with the sentinel's text
		st := "file does not exist"
		switch g.T.Draw(6) {
		case 0:
			n.S[0].V = st + " (" + n.S[0].V + ")"
		case 1:
			n.S[0].V = st + ": " + n.S[0].V
		case 2:
			n.S[0].V = n.S[0].V + ": " + st
		}
	}
	if k == WDomain && g.T.Bool(1, 8) {
		n.S[0] = Str{Safe: true} // WithDomain(err, NoDomain)
		if g.T.Bool(1, 3) {
			n.S[0].Neutral = true // WithDomain(err, Domain(""))
		}
	}
	if k == WTelemetry {
		switch g.T.Draw(8) {
		case 0, 1:
			// the same key twice in one annotation
			n.S[1].V = n.S[0].V
			n.S[1].Tok = ""
		case 2:
			// one key only
			n.S[1] = Str{Safe: true}
		case 3:
			// a variadic call with a computed, empty list of keys
			n.S[0], n.S[1] = Str{Safe: true}, Str{Safe: true}
		}
	}
	if k == WUNote && n.N[0] == 0 {
		n.S[0].Tok = "" // no note: the slot is unused
	}
	if k == WOpErr {
		// unused address slots carry no token
		if n.N[0]&1 == 0 {
			n.S[2].Tok = ""
		}
		if n.N[0]&2 == 0 {
			n.S[3].Tok = ""
		}
	}
	// hidden sub-trees
	for i := 0; i < ki.NHid; i++ {
		n.Hid = append(n.Hid, g.node(depth+1, true))
	}
	if ki.Args {
		na := g.T.Draw(4)
		for i := 0; i < na; i++ {
			var a Arg
			c := g.T.Draw(8)
			switch {
			case c < 3:
				a = Arg{Kind: ArgUnsafeStr, S: g.SG.Str(false)}
			case c < 5:
				a = Arg{Kind: ArgSafeStr, S: g.SG.Str(true)}
			case c < 7 || g.Cfg.NoErrArgs || !g.enabled[WSecondary] || g.budget < 1 || k == WSafeDetails || k == WMessagef || k == LHandledMsgf:
				a = Arg{Kind: ArgInt, N: g.T.Draw(1000)}
			default:
				a = Arg{Kind: ArgErr, Hid: len(n.Hid)}
				n.Hid = append(n.Hid, g.node(depth+1, true))
			}
			if g.Cfg.RichArgs && (a.Kind == ArgUnsafeStr || a.Kind == ArgInt) && g.T.Bool(1, 4) {
				if g.T.Bool(1, 2) {
					sp := g.SG.Str(true)
					sp.Neutral = true
					a = Arg{Kind: ArgSafeFmt, S: sp, S2: g.SG.Str(false)}
				} else {
					a = Arg{Kind: ArgStringer, S: g.SG.Str(false)}
				}
			}
			if g.Cfg.Verbs {
				a.Front = g.T.Bool(1, 5)
				a.Glue = g.T.Bool(1, 5)
			}
			if g.Cfg.Verbs && g.T.Bool(1, 3) {
				switch a.Kind {
				case ArgSafeFmt, ArgStringer:
					a.Verb = []string{"%v", "%s", "%q", "%+v"}[g.T.Draw(4)]
				case ArgUnsafeStr, ArgSafeStr:
					a.Verb = []string{"%v", "%q", "%#v", "%+v"}[g.T.Draw(4)]
				case ArgInt:
					a.Verb = []string{"%v", "%x", "%#v"}[g.T.Draw(3)]
				case ArgErr:
					a.Verb = []string{"%s", "%+v", "%q", "%#v"}[g.T.Draw(4)]
				}
			}
			if k == WSafeDetails {
				// WithSafeDetails redacts unsafe arguments away at
				// construction: the token exists nowhere afterwards.
				switch a.Kind {
				case ArgUnsafeStr, ArgStringer:
					a.S.Gone = true
				case ArgSafeFmt:
					a.S2.Gone = true
				}
			}
			n.A = append(n.A, a)
		}
	}
	// the last error argument may lack a verb in the format
	if g.Cfg.ExtraArgs && len(n.A) > 0 && n.A[len(n.A)-1].Kind == ArgErr && g.T.Bool(1, 3) {
		n.A[len(n.A)-1].NoVerb = true
	}
	// two error arguments that are occurrences of the same failure (same
	// constructors and texts, different annotations)
	{
		var ea []int
		for i, a := range n.A {
			if a.Kind == ArgErr {
				ea = append(ea, i)
			}
		}
		if len(ea) >= 2 && g.T.Bool(1, 3) {
			n.Hid[n.A[ea[1]].Hid] = g.reannotatedClone(n.Hid[n.A[ea[0]].Hid])
		}
	}
	if k == WSafeDetails && g.Cfg.RichArgs && len(n.A) >= 1 && g.T.Bool(1, 8) {
		// an empty format string with arguments: still an annotation
		n.S[0] = Str{Safe: true}
	}
	if ki.Tags {
		nt := 1 + g.T.Draw(3)
		usedKeys := map[string]bool{}
		for i := 0; i < nt; i++ {
			// logtags treats one-letter keys specially ("k" + value, no '=').
			key := g.SG.StrA(true, Plain)
			if g.T.Bool(1, 5) {
				// same key twice would overwrite the earlier value
				c := g.T.Draw(26)
				for usedKeys[string(rune('a'+c))] {
					c = (c + 1) % 26
				}
				key = Str{V: string(rune('a' + c)), Safe: true}
			}
			usedKeys[key.V] = true
			var v Arg
			switch g.T.Draw(4) {
			case 0:
				v = Arg{Kind: ArgUnsafeStr, S: g.SG.Str(false)}
			case 1:
				v = Arg{Kind: ArgSafeStr, S: g.SG.Str(true)}
			case 2:
				v = Arg{Kind: ArgInt, N: g.T.Draw(1000)}
			default:
				v = Arg{Kind: ArgInt, N: -1} // nil value
			}
			if g.Cfg.RichArgs && g.T.Bool(1, 6) {
				v = Arg{Kind: ArgStringer, S: g.SG.Str(false)}
			}
			n.T = append(n.T, Tag{Key: key, Val: v})
		}
	}
	switch ki.Arity {
	case Wrap:
		n.Kids = []*Node{g.node(depth+1, hidden)}
		g.correlate(n)
	case Multi:
		// mostly 2..4 branches; a multi-cause error with exactly one branch is
		// legal too (errors.Join(e), a user multi-error with one cause)
		nk := 2
		if g.budget > 3 {
			nk += g.T.Draw(3)
		}
		if g.T.Bool(1, 6) && k != MFmt {
			// (fmt.Errorf with a single %w is an ordinary wrapper, not a multi-cause error)
			nk = 1
		}
		if nk > g.budget {
			nk = g.budget
		}
		if nk < 1 {
			nk = 1
		}
		for i := 0; i < nk; i++ {
			n.Kids = append(n.Kids, g.node(depth+1, hidden))
		}
		if g.Cfg.Alias && nk >= 2 && g.T.Bool(1, 6) {
			// the same error object in two branches (an error joined with
			// itself, the same failure collected twice)
			i := g.T.Draw(nk - 1)
			j := i + 1 + g.T.Draw(nk-1-i)
			if n.Kids[i].AliasOf == 0 {
				c := n.Kids[i].AliasCopy()
				c.AliasOf = i + 1
				n.Kids[j] = c
			}
		}
	}
	return n
}

// correlate relates the hidden error of a Mark / secondary-error node to the
// node's visible cause, as programs do:
//   - Mark(e, sentinel) where e already claims that sentinel through a type's
//     own Is method (the mark is what makes the match survive transfer);
//   - CombineErrors(e, e') where e' is another occurrence of the same failure:
//     same constructors and messages, different annotations.
func (g *Gen) correlate(n *Node) {
	switch n.K {
	case WTags, WIssueLink:
		// annotated twice: the outer annotation shares one tag (key and
		// value) resp. the issue URL with an inner annotation of the same kind
		if !g.T.Bool(1, 3) {
			return
		}
		for c := n.Kids[0]; c != nil; {
			if c.K == n.K {
				if n.K == WTags && len(c.T) > 0 && len(n.T) > 0 {
					shared := c.T[g.T.Draw(len(c.T))]
					dup := false
					for _, t := range n.T {
						if t.Key.V == shared.Key.V {
							dup = true
						}
					}
					if !dup {
						shared.Key.Tok, shared.Val.S.Tok = "", "" // (the inner layer owns the tokens)
						n.T = append(n.T, shared)
					}
				} else if n.K == WIssueLink {
					n.S[0] = Str{V: c.S[0].V, Safe: true}
				}
				return
			}
			if kinds[c.K].Arity != Wrap || len(c.Kids) != 1 {
				return
			}
			c = c.Kids[0]
		}
	case WMark:
		if !g.T.Bool(1, 3) {
			return
		}
		claimed := -1
		n.Kids[0].Walk(func(x *Node, hidden bool) {
			if hidden {
				return
			}
			switch x.K {
			case LUIs:
				claimed = 11 // HarnessSentinel
			case LUIsStd:
				claimed = 7 // os.ErrNotExist
			case LErrno:
				switch x.N[0] {
				case 0:
					claimed = 7 // ENOENT -> os.ErrNotExist
				case 1:
					claimed = 6 // EEXIST -> os.ErrExist
				case 2, 3:
					claimed = 5 // EACCES, EPERM -> os.ErrPermission
				}
			}
		})
		if claimed >= 0 {
			n.Hid[0] = &Node{K: LSentinel, N: []int{claimed}}
		}
	case WSecondary, WCombine:
		if !g.T.Bool(1, 4) {
			return
		}
		n.Hid[0] = g.reannotatedClone(n.Kids[0])
	}
}

// reannotatedClone returns a copy of src (same constructors and messages) in
// which the strings of annotation layers are drawn afresh: another occurrence
// of the same failure.
func (g *Gen) reannotatedClone(src *Node) *Node {
	c := cloneNode(src)
	c.Walk(func(x *Node, _ bool) {
		switch x.K {
		case WTelemetry, WHint, WDetail, WIssueLink, WSafeDetails:
			for i := range x.S {
				if x.S[i].Tok != "" {
					x.S[i] = g.SG.Str(x.S[i].Safe)
				}
			}
		}
	})
	return c
}

func cloneNode(n *Node) *Node {
	c := *n
	c.S = append([]Str(nil), n.S...)
	c.A = append([]Arg(nil), n.A...)
	c.T = append([]Tag(nil), n.T...)
	c.N = append([]int(nil), n.N...)
	c.Kids, c.Hid = nil, nil
	for _, k := range n.Kids {
		if k.AliasOf > 0 {
			// stays an alias, now of the cloned sibling
			a := c.Kids[k.AliasOf-1].AliasCopy()
			a.AliasOf = k.AliasOf
			c.Kids = append(c.Kids, a)
			continue
		}
		c.Kids = append(c.Kids, cloneNode(k))
	}
	for _, h := range n.Hid {
		c.Hid = append(c.Hid, cloneNode(h))
	}
	return &c
}

// Build constructs the real error for a spec.
func Build(n *Node) error { return (&Builder{}).Build(n) }

// Builder builds specs; it can substitute hidden sub-trees.
type Builder struct {
	// ReplaceHidden, if set, is called for every hidden sub-tree (after
	// building it) and may return a substitute error to use instead.
	ReplaceHidden func(parent *Node, idx int, built error) error
	// MarkRefs records, for every layer built by errors.Mark, its reference.
	MarkRefs map[error]error
	// Built records the error built for every spec node.
	Built map[*Node]error
}

// Build constructs the real error for a spec. It panics on a harness bug.
func (b *Builder) Build(n *Node) error {
	if os.Getenv("ERRSIM_DEBUG") != "" {
		fmt.Fprintln(os.Stderr, "BUILD", n.Expr())
	}
	if b.MarkRefs == nil {
		b.MarkRefs = map[error]error{}
		b.Built = map[*Node]error{}
	}
	save := onMark
	onMark = func(layer, ref error) { b.MarkRefs[layer] = ref }
	defer func() { onMark = save }()
	return b.build(n)
}

//go:noinline
func (b *Builder) viaA(n *Node) error { return b.build0(n) }

//go:noinline
func (b *Builder) viaB(n *Node) error { return b.build0(n) }

//go:noinline
func (b *Builder) viaH(n *Node) error { return b.build0(n) }

//go:noinline
func (b *Builder) build0(n *Node) error { return b.buildNode(n) }

// build keeps the same stack depth as the via* trampolines.
//
//go:noinline
func (b *Builder) build(n *Node) error { return b.build0(n) }

func (b *Builder) buildNode(n *Node) error {
	kids := make([]error, len(n.Kids))
	for i, k := range n.Kids {
		if k.AliasOf > 0 {
			kids[i] = kids[k.AliasOf-1]
			b.mapBuilt(k, n.Kids[k.AliasOf-1])
			continue
		}
		// siblings are built through different (non-inlined) call paths of
		// equal depth, as in real programs, so that their captured stacks
		// share the innermost and outermost frames but not the middle ones
		switch i % 3 {
		case 0:
			kids[i] = b.build(k)
		case 1:
			kids[i] = b.viaA(k)
		default:
			kids[i] = b.viaB(k)
		}
	}
	hid := make([]error, len(n.Hid))
	for i, h := range n.Hid {
		hid[i] = b.viaH(h)
		if b.ReplaceHidden != nil {
			hid[i] = b.ReplaceHidden(n, i, hid[i])
		}
	}
	e := kinds[n.K].build(n, kids, hid)
	if e == nil {
		panic(fmt.Sprintf("harness: constructor %s returned nil", kinds[n.K].Name))
	}
	b.Built[n] = e
	return e
}

// mapBuilt records, for every node of an aliased copy, the object built for
// the corresponding node of the original.
func (b *Builder) mapBuilt(clone, orig *Node) {
	b.Built[clone] = b.Built[orig]
	for i := range clone.Kids {
		b.mapBuilt(clone.Kids[i], orig.Kids[i])
	}
	for i := range clone.Hid {
		b.mapBuilt(clone.Hid[i], orig.Hid[i])
	}
}

// DeepUnsafeChain builds a chain of n Wrapf layers, each with an unsafe
// argument, over a leaf (limits that depend on the number of layers).
func (g *Gen) DeepUnsafeChain(n int) *Node {
	cur := &Node{K: LNew, S: []Str{g.SG.Str(true)}}
	for i := 0; i < n; i++ {
		w := &Node{K: WWrapf, S: []Str{{V: fmt.Sprintf("l%d", i), Safe: true}}, A: []Arg{{Kind: ArgUnsafeStr, S: g.SG.StrA(false, Plain)}}}
		w.Kids = []*Node{cur}
		cur = w
	}
	return cur
}

// DeepChain builds a chain of n simple library wrappers over a leaf (depth
// guards, quadratic formatting, recursion limits).
func (g *Gen) DeepChain(n int) *Node {
	cur := &Node{K: LNew, S: []Str{g.SG.Str(true)}}
	for i := 0; i < n; i++ {
		var w *Node
		// only wrappers that are O(1) to encode and to render: a chain of
		// wrappers without registered encoder costs O(n^3) to encode
		// (extractPrefix renders the whole chain at every level), and
		// wrappers rendered through formatSimple re-enter Error() at every
		// level (exponential in the library itself)
		if i%2 == 0 {
			w = &Node{K: WMessage, S: []Str{{V: fmt.Sprintf("l%d", i), Safe: true}}}
		} else {
			w = &Node{K: WAssert}
		}
		w.Kids = []*Node{cur}
		cur = w
	}
	return cur
}

// WideTree builds a multi-cause tree with many leaf-encoded nodes: either
// one Join of n branches or a balanced tree of Joins with the given fan-out
// and depth.
func (g *Gen) WideTree(fanout, depth int) *Node {
	if depth == 0 {
		return &Node{K: LNew, S: []Str{g.SG.Str(true)}}
	}
	n := &Node{K: MJoin, N: []int{0}}
	for i := 0; i < fanout; i++ {
		n.Kids = append(n.Kids, g.WideTree(fanout, depth-1))
	}
	return n
}
