// Package gen generates error-tree specifications from a choice tape and
// builds them into real error values by calling the library's (and the
// standard library's, pkg/errors', gRPC's ...) real constructors.
package gen

import (
	"fmt"
	"strings"
)

// Str is a string slot of a constructor, tainted with a unique token.
type Str struct {
	V    string // the full string handed to the constructor
	Tok  string // the token embedded in V ("" if none, e.g. empty string)
	Safe bool   // entered through a channel the library declares safe
	// Neutral: neither the "unsafe channel" list of C03 nor the "declared
	// safe" list of C12 names this channel; the token is used for identity
	// and difference only.
	Neutral bool
	// Gone: the constructor discards this value (an unsafe argument of
	// WithSafeDetails is redacted away at construction): it is visible
	// nowhere, and must in particular never show up in a PII-free output.
	Gone bool
}

// ArgKind is the kind of a printf argument.
type ArgKind int

// Argument kinds.
const (
	ArgUnsafeStr ArgKind = iota
	ArgSafeStr
	ArgInt
	ArgErr // an error argument: becomes a hidden secondary error
	// ArgSafeFmt: a value of an application type implementing
	// redact.SafeFormatter, with a safe part (S) and an unsafe part (S2).
	ArgSafeFmt
	// ArgStringer: a value of an application type whose String() method
	// returns S (unsafe).
	ArgStringer
)

// Arg is one printf argument of a *f constructor.
type Arg struct {
	Kind ArgKind
	S    Str
	S2   Str // ArgSafeFmt: the unsafe part
	N    int
	Hid  int // index in Node.Hid for ArgErr
	// Verb is the printf verb used for this argument ("" = the default:
	// %s for strings, %d for integers, %v for errors).
	Verb string
	// Front: the verb goes before the literal text instead of after it.
	// Glue: no separator between this verb and what precedes it.
	Front, Glue bool
	// NoVerb: the argument is passed although the format has no verb for it
	// (fmt appends it as %!(EXTRA ...)); an error argument is attached all the same.
	NoVerb bool
}

// Tag is one context tag.
type Tag struct {
	Key Str // safe
	Val Arg // ArgUnsafeStr, ArgSafeStr, ArgInt; N==-1 with ArgInt means nil value
}

// Node is one constructor application in an error-tree specification.
type Node struct {
	K    Kind
	S    []Str
	A    []Arg
	T    []Tag
	N    []int
	Kids []*Node // visible causes (1 for wrappers, n for multi-cause)
	Hid  []*Node // hidden errors (barrier payload, secondary, mark reference, error args)
	// AliasOf > 0: this branch of a multi-cause node is not built on its own
	// but is the very same object as the sibling with index AliasOf-1 (the
	// spec below it is a copy of that sibling's).
	AliasOf int
}

// AliasCopy returns a copy of the spec's structure for an aliased branch.
// The string, argument and tag slices are shared with the original on
// purpose: a later edit of a string (the correlation pass) then shows in
// both, as it must for one and the same object.
func (n *Node) AliasCopy() *Node {
	c := *n
	c.Kids, c.Hid = nil, nil
	for _, k := range n.Kids {
		c.Kids = append(c.Kids, k.AliasCopy())
	}
	for _, h := range n.Hid {
		c.Hid = append(c.Hid, h.AliasCopy())
	}
	return &c
}

// Token describes one taint token of a spec.
type Token struct {
	Tok         string
	Safe        bool
	Neutral     bool
	UnderMark   bool // sits in (or under) a Mark reference: only its message survives, as unsafe
	UnderHidden bool // sits behind a barrier / secondary error / error argument
	UnderMulti  bool // sits in a branch of a multi-cause error
	Gone        bool // discarded by the constructor (see Str.Gone)
	Kind        Kind
}

// Tokens lists all tokens of the tree.
func (n *Node) Tokens() []Token {
	var out []Token
	var walk func(n *Node, underMark, underHidden, underMulti bool)
	walk = func(n *Node, underMark, underHidden, underMulti bool) {
		add := func(s Str) {
			if s.Tok != "" {
				out = append(out, Token{Tok: s.Tok, Safe: s.Safe, Neutral: s.Neutral, Gone: s.Gone, UnderMark: underMark, UnderHidden: underHidden, UnderMulti: underMulti, Kind: n.K})
			}
		}
		for _, s := range n.S {
			add(s)
		}
		for _, a := range n.A {
			switch a.Kind {
			case ArgUnsafeStr, ArgSafeStr, ArgStringer:
				add(a.S)
			case ArgSafeFmt:
				add(a.S)
				add(a.S2)
			}
		}
		for _, t := range n.T {
			add(t.Key)
			switch t.Val.Kind {
			case ArgUnsafeStr, ArgSafeStr, ArgStringer:
				add(t.Val.S)
			}
		}
		for _, k := range n.Kids {
			walk(k, underMark, underHidden, underMulti || kinds[n.K].Arity == Multi)
		}
		for _, h := range n.Hid {
			walk(h, underMark || n.K == WMark, true, underMulti)
		}
	}
	walk(n, false, false, false)
	return out
}

// Size returns the number of nodes including hidden ones.
func (n *Node) Size() int {
	c := 1
	for _, k := range n.Kids {
		c += k.Size()
	}
	for _, h := range n.Hid {
		c += h.Size()
	}
	return c
}

// Depth returns the visible depth.
func (n *Node) Depth() int {
	d := 0
	for _, k := range n.Kids {
		if x := k.Depth(); x > d {
			d = x
		}
	}
	return d + 1
}

// Walk visits every node (visible and hidden), pre-order.
func (n *Node) Walk(f func(n *Node, hidden bool)) {
	var walk func(n *Node, hidden bool)
	walk = func(n *Node, hidden bool) {
		f(n, hidden)
		for _, k := range n.Kids {
			walk(k, hidden)
		}
		for _, h := range n.Hid {
			walk(h, true)
		}
	}
	walk(n, false)
}

// HasKind reports whether the tree contains a node for which pred is true.
func (n *Node) HasKind(pred func(Kind) bool) bool {
	found := false
	n.Walk(func(n *Node, _ bool) {
		if pred(n.K) {
			found = true
		}
	})
	return found
}

// Shape returns a compact signature of the constructors used (no strings).
func (n *Node) Shape() string {
	var b strings.Builder
	var walk func(n *Node)
	walk = func(n *Node) {
		b.WriteString(kinds[n.K].Name)
		if len(n.Kids)+len(n.Hid) > 0 {
			b.WriteByte('(')
			for i, k := range n.Kids {
				if i > 0 {
					b.WriteByte(',')
				}
				if k.AliasOf > 0 {
					b.WriteByte('=')
				}
				walk(k)
			}
			for _, h := range n.Hid {
				b.WriteString(";h:")
				walk(h)
			}
			b.WriteByte(')')
		}
	}
	walk(n)
	return b.String()
}

// Expr renders the spec as a Go-like expression for humans.
func (n *Node) Expr() string {
	var b strings.Builder
	var walk func(n *Node)
	walk = func(n *Node) {
		b.WriteString(kinds[n.K].Name)
		b.WriteByte('(')
		sep := ""
		item := func(s string) {
			b.WriteString(sep)
			b.WriteString(s)
			sep = ", "
		}
		for _, k := range n.Kids {
			b.WriteString(sep)
			sep = ", "
			if k.AliasOf > 0 {
				fmt.Fprintf(&b, "same-object-as-branch-%d", k.AliasOf-1)
				continue
			}
			walk(k)
		}
		for _, s := range n.S {
			item(fmt.Sprintf("%q", s.V))
		}
		for _, a := range n.A {
			if a.Front {
				a.Verb = "front:" + a.Verb
			}
			if a.Glue {
				a.Verb = "glued:" + a.Verb
			}
			switch a.Kind {
			case ArgUnsafeStr:
				item(fmt.Sprintf("%s%q", a.Verb, a.S.V))
			case ArgSafeStr:
				item(fmt.Sprintf("%sSafe(%q)", a.Verb, a.S.V))
			case ArgInt:
				item(a.Verb + fmt.Sprint(a.N))
			case ArgErr:
				item(fmt.Sprintf("%serr#%d", a.Verb, a.Hid))
			case ArgSafeFmt:
				item(fmt.Sprintf("%sSafeFormatter{safe:%q unsafe:%q}", a.Verb, a.S.V, a.S2.V))
			case ArgStringer:
				item(fmt.Sprintf("%sStringer(%q)", a.Verb, a.S.V))
			}
		}
		for _, t := range n.T {
			switch t.Val.Kind {
			case ArgUnsafeStr:
				item(fmt.Sprintf("tag{%q=%q}", t.Key.V, t.Val.S.V))
			case ArgSafeStr:
				item(fmt.Sprintf("tag{%q=Safe(%q)}", t.Key.V, t.Val.S.V))
			case ArgStringer:
				item(fmt.Sprintf("tag{%q=Stringer(%q)}", t.Key.V, t.Val.S.V))
			default:
				item(fmt.Sprintf("tag{%q=%d}", t.Key.V, t.Val.N))
			}
		}
		for _, x := range n.N {
			item(fmt.Sprint(x))
		}
		for i, h := range n.Hid {
			b.WriteString(sep)
			sep = ", "
			fmt.Fprintf(&b, "hidden#%d=", i)
			walk(h)
		}
		b.WriteByte(')')
	}
	walk(n)
	return b.String()
}
