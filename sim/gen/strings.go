package gen

import (
	"fmt"
	"strings"

	"errsim/tape"
)

// Alphabet selects the string population.
type Alphabet int

// Alphabets of the property texts.
const (
	// Regular: non-empty valid UTF-8 without the redaction marker runes;
	// every newline is interior and isolated.
	Regular Alphabet = iota
	// Hostile: additionally marker runes, newlines anywhere, empty
	// strings, NUL, invalid UTF-8, printf verbs.
	Hostile
	// Plain: Regular without newlines and without ": " (for slots that feed
	// transports with their own text restrictions).
	Plain
	// RegularE: Regular plus the empty string.
	RegularE
)

var regularPieces = []string{
	"a", "foo", "bar baz", ": ", ":", " ", "%", "%s", "%d", "%v", "100%", "%!", "\"", "'", "`",
	"é", "世界", "Ω", "\\", "{}", "()", "-", "_", "/", "x:y", ": x: ", "=", ",", "[", "]", "\t", "\n",
	"(1)", "--", "error", "nil", "<nil>", "Error types:", "0",
}

var hostileExtra = []string{
	"‹", "›", "‹x›", "›‹", "‹‹", "\n", "\n\n", "\x00", "\xff\xfe", "\xc3", "%!v(", "%w", "%+v", "\r", "\r\n",
	"‹\n›", "?", "‹×›", "×",
}

// StrGen draws tainted strings.
type StrGen struct {
	T     *tape.Tape
	Alpha Alphabet
	// Long: occasionally produce strings of several hundred bytes with
	// multi-byte runes (transports that truncate or frame by bytes).
	Long bool
	next int
}

// Token returns a fresh token.
func (g *StrGen) token(safe bool) string {
	g.next++
	if safe {
		return fmt.Sprintf("TKS%dQ", g.next)
	}
	return fmt.Sprintf("TKU%dQ", g.next)
}

// Str draws a string for a channel of the given safety.
func (g *StrGen) Str(safe bool) Str { return g.StrA(safe, g.Alpha) }

// StrA draws a string over an explicit alphabet.
func (g *StrGen) StrA(safe bool, alpha Alphabet) Str {
	t := g.T
	if (alpha == Hostile || alpha == RegularE) && t.Bool(1, 12) {
		return Str{V: "", Safe: safe}
	}
	if alpha == RegularE {
		alpha = Regular
	}
	tok := g.token(safe)
	np := t.Draw(4) // number of extra pieces, 0 simplest
	pieces := []string{tok}
	for i := 0; i < np; i++ {
		var p string
		switch {
		case alpha == Hostile && t.Bool(1, 2):
			p = hostileExtra[t.Draw(len(hostileExtra))]
		case alpha == Plain:
			p = []string{"a", "foo", " ", "-", "_", "é", "(1)", "x", "%", "'"}[t.Draw(10)]
		default:
			p = regularPieces[t.Draw(len(regularPieces))]
		}
		if t.Bool(1, 2) {
			pieces = append(pieces, p)
		} else {
			pieces = append([]string{p}, pieces...)
		}
	}
	if g.Long && t.Bool(1, 6) {
		pieces = append(pieces, strings.Repeat([]string{"é", "世界", "ab世", "Ω "}[t.Draw(4)], 40+t.Draw(120)))
	}
	v := strings.Join(pieces, "")
	if alpha != Hostile {
		v = regularize(v)
	}
	return Str{V: v, Tok: tok, Safe: safe}
}

// regularize enforces "every newline is interior and isolated".
func regularize(s string) string {
	for strings.Contains(s, "\n\n") {
		s = strings.ReplaceAll(s, "\n\n", "\n")
	}
	s = strings.TrimLeft(s, "\n")
	s = strings.TrimRight(s, "\n")
	return s
}

// IsRegular reports whether s is in the regular alphabet.
func IsRegular(s string) bool {
	if s == "" || strings.ContainsAny(s, "‹›") || strings.Contains(s, "\n\n") ||
		strings.HasPrefix(s, "\n") || strings.HasSuffix(s, "\n") {
		return false
	}
	return strings.ToValidUTF8(s, "�") == s
}

// escFmt escapes a literal for use inside a printf format.
func escFmt(s string) string { return strings.ReplaceAll(s, "%", "%%") }
