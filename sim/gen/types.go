package gen

import (
	"context"
	goerrors "errors"
	"fmt"
	"os"
	"strings"

	"github.com/cockroachdb/errors"
	"github.com/cockroachdb/errors/errorspb"
	"github.com/cockroachdb/redact"
	"github.com/gogo/protobuf/proto"
	pkgerrors "github.com/pkg/errors"
)

// ---- harness ("user") error types ------------------------------------
// None of these is registered unless its name ends in Reg.

// ULeafPtr is a plain pointer-typed leaf.
type ULeafPtr struct{ Msg string }

func (e *ULeafPtr) Error() string { return e.Msg }

// ULeafVal is a non-comparable value-typed leaf.
type ULeafVal struct {
	Msg   string
	Extra []int // makes the type non-comparable
}

func (e ULeafVal) Error() string { return e.Msg }

// HarnessSentinel is a sentinel claimed by ULeafIs.
var HarnessSentinel = goerrors.New("TKharness-sentinel")

// HarnessSentinel2 is matched by nothing but itself.
var HarnessSentinel2 = &ULeafPtr{Msg: "TKharness-sentinel-2"}

// ULeafIs is a leaf with its own Is method claiming HarnessSentinel.
type ULeafIs struct{ Msg string }

func (e *ULeafIs) Error() string        { return e.Msg }
func (e *ULeafIs) Is(target error) bool { return target == HarnessSentinel }

// ULeafIsStd is a leaf with its own Is method claiming os.ErrNotExist.
type ULeafIsStd struct{ Msg string }

func (e *ULeafIsStd) Error() string        { return e.Msg }
func (e *ULeafIsStd) Is(target error) bool { return target == os.ErrNotExist }

// ULeafReg is a registered leaf with a proto payload.
type ULeafReg struct {
	Msg  string
	Code int
}

func (e *ULeafReg) Error() string { return e.Msg }

// ULeafSafe is an unregistered leaf implementing SafeDetailer and SafeFormatter.
type ULeafSafe struct {
	SafePart   string
	UnsafePart string
}

func (e *ULeafSafe) Error() string { return e.SafePart + " " + e.UnsafePart }
func (e *ULeafSafe) SafeFormatError(p errors.Printer) error {
	p.Printf("%s %s", redact.Safe(e.SafePart), e.UnsafePart)
	return nil
}
func (e *ULeafSafe) Format(s fmt.State, verb rune) { errors.FormatError(e, s, verb) }
func (e *ULeafSafe) SafeDetails() []string         { return []string{e.SafePart} }

// ULeafBadProto is an unregistered leaf that announces itself as a protobuf
// message but whose marshalling fails (a required field is unset, a custom
// Marshal reports an error...): the encoder must drop the payload and go on.
type ULeafBadProto struct{ Msg string }

func (e *ULeafBadProto) Error() string  { return e.Msg }
func (e *ULeafBadProto) Reset()         { *e = ULeafBadProto{} }
func (e *ULeafBadProto) String() string { return e.Msg }
func (e *ULeafBadProto) ProtoMessage()  {}
func (e *ULeafBadProto) Marshal() ([]byte, error) {
	return nil, goerrors.New("marshal: required field not set")
}

// UWrapBadProto is the wrapper counterpart of ULeafBadProto.
type UWrapBadProto struct {
	Msg   string
	Cause error
}

func (e *UWrapBadProto) Error() string  { return e.Msg + ": " + e.Cause.Error() }
func (e *UWrapBadProto) Unwrap() error  { return e.Cause }
func (e *UWrapBadProto) Reset()         { *e = UWrapBadProto{} }
func (e *UWrapBadProto) String() string { return e.Msg }
func (e *UWrapBadProto) ProtoMessage()  {}
func (e *UWrapBadProto) Marshal() ([]byte, error) {
	return nil, goerrors.New("marshal: required field not set")
}

// UWrapStack is an application-defined (unregistered) wrapper that captures
// its own stack and exposes it pkg/errors-style through StackTrace().
type UWrapStack struct {
	Msg   string
	Cause error
	St    pkgerrors.StackTrace
}

func (e *UWrapStack) Error() string                    { return e.Msg + ": " + e.Cause.Error() }
func (e *UWrapStack) Unwrap() error                    { return e.Cause }
func (e *UWrapStack) StackTrace() pkgerrors.StackTrace { return e.St }

// NewUWrapStack captures the caller's stack.
//
//go:noinline
func NewUWrapStack(cause error, msg string) *UWrapStack {
	type tracer interface{ StackTrace() pkgerrors.StackTrace }
	return &UWrapStack{Msg: msg, Cause: cause, St: pkgerrors.New("").(tracer).StackTrace()}
}

// UZeroA and UZeroB are distinct error types without any state (sentinel
// types): pointers to values of different zero-size types may compare equal
// as addresses although they are different errors.
type UZeroA struct{}
type UZeroB struct{}

func (*UZeroA) Error() string { return "TKUzeroAQ" }
func (*UZeroB) Error() string { return "TKUzeroBQ" }

// UFmtArg is an application value type that knows how to print itself
// safely: its first part is safe, its second part is not.
type UFmtArg struct{ SafePart, UnsafePart string }

// SafeFormat implements redact.SafeFormatter.
func (a UFmtArg) SafeFormat(p redact.SafePrinter, _ rune) {
	p.Printf("%s/%s", redact.Safe(a.SafePart), a.UnsafePart)
}
func (a UFmtArg) String() string { return redact.StringWithoutMarkers(a) }

// UStringer is an application value type with a String method (unsafe text).
type UStringer struct{ V string }

func (s UStringer) String() string { return s.V }

// UWrapPrefix is "msg: cause" with Unwrap.
type UWrapPrefix struct {
	Msg   string
	Cause error
}

func (e *UWrapPrefix) Error() string { return e.Msg + ": " + e.Cause.Error() }
func (e *UWrapPrefix) Unwrap() error { return e.Cause }

// UWrapCause has only Cause().
type UWrapCause struct {
	Msg string
	C   error
}

func (e *UWrapCause) Error() string { return e.Msg + ": " + e.C.Error() }
func (e *UWrapCause) Cause() error  { return e.C }

// UWrapFull owns its full message.
type UWrapFull struct {
	Msg   string
	Cause error
}

func (e *UWrapFull) Error() string { return e.Msg }
func (e *UWrapFull) Unwrap() error { return e.Cause }

// UWrapFmt is a wrapper implementing errors.Formatter with detail lines.
type UWrapFmt struct {
	Msg    string
	Detail string
	Cause  error
}

func (e *UWrapFmt) Error() string                 { return e.Msg + ": " + e.Cause.Error() }
func (e *UWrapFmt) Unwrap() error                 { return e.Cause }
func (e *UWrapFmt) Format(s fmt.State, verb rune) { errors.FormatError(e, s, verb) }
func (e *UWrapFmt) FormatError(p errors.Printer) error {
	p.Print(e.Msg)
	if p.Detail() {
		p.Printf("detail: %s", e.Detail)
	}
	return e.Cause
}

// UWrapReg is a registered wrapper.
type UWrapReg struct {
	Msg   string
	Code  int
	Cause error
}

func (e *UWrapReg) Error() string { return e.Msg + ": " + e.Cause.Error() }
func (e *UWrapReg) Unwrap() error { return e.Cause }

// UWrapOpt is a type that is sometimes a leaf and sometimes a wrapper.
type UWrapOpt struct {
	Msg   string
	Cause error
}

func (e *UWrapOpt) Error() string {
	if e.Cause == nil {
		return e.Msg
	}
	return e.Msg + ": " + e.Cause.Error()
}
func (e *UWrapOpt) Unwrap() error { return e.Cause }

// UWrapNote is a wrapper with an optional note: transparent when empty.
type UWrapNote struct {
	Note  string
	Cause error
}

func (e *UWrapNote) Error() string {
	if e.Note == "" {
		return e.Cause.Error()
	}
	return e.Note + ": " + e.Cause.Error()
}
func (e *UWrapNote) Unwrap() error { return e.Cause }

// UMulti is an unregistered multi-cause error.
type UMulti struct {
	Msg  string
	Errs []error
}

func (e *UMulti) Error() string {
	s := e.Msg
	for _, c := range e.Errs {
		s += "; " + c.Error()
	}
	return s
}
func (e *UMulti) Unwrap() []error { return e.Errs }

// UMultiReg is a registered multi-cause error.
type UMultiReg struct {
	Msg  string
	Errs []error
}

func (e *UMultiReg) Error() string {
	s := e.Msg
	for _, c := range e.Errs {
		s += " | " + c.Error()
	}
	return s
}
func (e *UMultiReg) Unwrap() []error { return e.Errs }

// UMultiDecl is a registered multi-cause error whose decoder declines
// (returns nil) messages it does not understand -- version skew: the
// receiver then keeps an opaque error, branches included.
type UMultiDecl struct {
	Msg  string
	Errs []error
}

func (e *UMultiDecl) Error() string   { return e.Msg }
func (e *UMultiDecl) Unwrap() []error { return e.Errs }

func init() {
	errors.RegisterMultiCauseDecoder(errors.GetTypeKey((*UMultiDecl)(nil)),
		func(_ context.Context, causes []error, msg string, _ []string, _ proto.Message) error {
			if strings.HasPrefix(msg, "v2 ") {
				return nil
			}
			return &UMultiDecl{Msg: msg, Errs: causes}
		})
}

func init() {
	errors.RegisterLeafEncoder(errors.GetTypeKey((*ULeafReg)(nil)),
		func(_ context.Context, err error) (string, []string, proto.Message) {
			e := err.(*ULeafReg)
			return e.Msg, []string{fmt.Sprintf("code %d", e.Code)},
				&errorspb.StringsPayload{Details: []string{e.Msg, fmt.Sprint(e.Code)}}
		})
	errors.RegisterLeafDecoder(errors.GetTypeKey((*ULeafReg)(nil)),
		func(_ context.Context, msg string, _ []string, payload proto.Message) error {
			m, ok := payload.(*errorspb.StringsPayload)
			if !ok || len(m.Details) < 2 {
				return nil
			}
			var code int
			if _, err := fmt.Sscan(m.Details[1], &code); err != nil {
				return nil
			}
			return &ULeafReg{Msg: m.Details[0], Code: code}
		})
	errors.RegisterWrapperEncoder(errors.GetTypeKey((*UWrapReg)(nil)),
		func(_ context.Context, err error) (string, []string, proto.Message) {
			e := err.(*UWrapReg)
			return e.Msg, []string{fmt.Sprintf("code %d", e.Code)},
				&errorspb.StringsPayload{Details: []string{e.Msg, fmt.Sprint(e.Code)}}
		})
	errors.RegisterWrapperDecoder(errors.GetTypeKey((*UWrapReg)(nil)),
		func(_ context.Context, cause error, _ string, _ []string, payload proto.Message) error {
			m, ok := payload.(*errorspb.StringsPayload)
			if !ok || len(m.Details) < 2 {
				return nil
			}
			var code int
			if _, err := fmt.Sscan(m.Details[1], &code); err != nil {
				return nil
			}
			return &UWrapReg{Msg: m.Details[0], Code: code, Cause: cause}
		})
	errors.RegisterMultiCauseEncoder(errors.GetTypeKey((*UMultiReg)(nil)),
		func(_ context.Context, err error) (string, []string, proto.Message) {
			e := err.(*UMultiReg)
			return e.Error(), nil, &errorspb.StringPayload{Msg: e.Msg}
		})
	errors.RegisterMultiCauseDecoder(errors.GetTypeKey((*UMultiReg)(nil)),
		func(_ context.Context, causes []error, _ string, _ []string, payload proto.Message) error {
			m, ok := payload.(*errorspb.StringPayload)
			if !ok {
				return nil
			}
			return &UMultiReg{Msg: m.Msg, Errs: causes}
		})
}
