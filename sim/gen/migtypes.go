package gen

import (
	"context"
	"fmt"

	"github.com/cockroachdb/errors"
	"github.com/gogo/protobuf/proto"
)

// Types for C17 (type renames). The "same" error type under its successive
// names: Foo (original), Bar and Qux (two alternative renames of Foo), Baz
// (rename of Bar), Zed (rename of Baz); each in three forms: leaf by value,
// leaf by pointer, wrapper. None is registered in init(): each simulated code
// version registers what it knows (props/c17.go).

// MigName indexes the names.
const (
	MigFoo = iota
	MigBar
	MigQux
	MigBaz
	MigZed
	NumMigNames
)

// MigNames are the short names.
var MigNames = []string{"Foo", "Bar", "Qux", "Baz", "Zed"}

type FooLeaf struct{ Msg string }
type BarLeaf struct{ Msg string }
type QuxLeaf struct{ Msg string }
type BazLeaf struct{ Msg string }
type ZedLeaf struct{ Msg string }

func (e FooLeaf) Error() string { return e.Msg }
func (e BarLeaf) Error() string { return e.Msg }
func (e QuxLeaf) Error() string { return e.Msg }
func (e BazLeaf) Error() string { return e.Msg }
func (e ZedLeaf) Error() string { return e.Msg }

type FooLeafP struct {
	Msg  string
	Code int
}
type BarLeafP struct {
	Msg  string
	Code int
}
type QuxLeafP struct {
	Msg  string
	Code int
}
type BazLeafP struct {
	Msg  string
	Code int
}
type ZedLeafP struct {
	Msg  string
	Code int
}

func (e *FooLeafP) Error() string { return e.Msg }
func (e *BarLeafP) Error() string { return e.Msg }
func (e *QuxLeafP) Error() string { return e.Msg }
func (e *BazLeafP) Error() string { return e.Msg }
func (e *ZedLeafP) Error() string { return e.Msg }

type FooWrap struct {
	Msg   string
	Cause error
}
type BarWrap struct {
	Msg   string
	Cause error
}
type QuxWrap struct {
	Msg   string
	Cause error
}
type BazWrap struct {
	Msg   string
	Cause error
}
type ZedWrap struct {
	Msg   string
	Cause error
}

func (e *FooWrap) Error() string          { return e.Msg + ": " + e.Cause.Error() }
func (e *BarWrap) Error() string          { return e.Msg + ": " + e.Cause.Error() }
func (e *QuxWrap) Error() string          { return e.Msg + ": " + e.Cause.Error() }
func (e *BazWrap) Error() string          { return e.Msg + ": " + e.Cause.Error() }
func (e *ZedWrap) Error() string          { return e.Msg + ": " + e.Cause.Error() }
func (e *FooWrap) Unwrap() error          { return e.Cause }
func (e *FooWrap) ErrorKeyMarker() string { return "mig-ext" }
func (e *BarWrap) Unwrap() error          { return e.Cause }
func (e *BarWrap) ErrorKeyMarker() string { return "mig-ext" }
func (e *QuxWrap) Unwrap() error          { return e.Cause }
func (e *QuxWrap) ErrorKeyMarker() string { return "mig-ext" }
func (e *BazWrap) Unwrap() error          { return e.Cause }
func (e *BazWrap) ErrorKeyMarker() string { return "mig-ext" }
func (e *ZedWrap) Unwrap() error          { return e.Cause }
func (e *ZedWrap) ErrorKeyMarker() string { return "mig-ext" }

// Forms.
const (
	FormVal = iota
	FormPtr
	FormWrap
	NumForms
)

// FormNames names the forms.
var FormNames = []string{"leaf-by-value", "leaf-by-pointer", "wrapper"}

// MigLeaf builds the leaf/wrapper of the given name and form.
func MigNew(name, form int, msg string, cause error) error {
	switch form {
	case FormVal:
		switch name {
		case MigFoo:
			return FooLeaf{msg}
		case MigBar:
			return BarLeaf{msg}
		case MigQux:
			return QuxLeaf{msg}
		case MigBaz:
			return BazLeaf{msg}
		default:
			return ZedLeaf{msg}
		}
	case FormPtr:
		switch name {
		case MigFoo:
			return &FooLeafP{msg, 7}
		case MigBar:
			return &BarLeafP{msg, 7}
		case MigQux:
			return &QuxLeafP{msg, 7}
		case MigBaz:
			return &BazLeafP{msg, 7}
		default:
			return &ZedLeafP{msg, 7}
		}
	default:
		switch name {
		case MigFoo:
			return &FooWrap{msg, cause}
		case MigBar:
			return &BarWrap{msg, cause}
		case MigQux:
			return &QuxWrap{msg, cause}
		case MigBaz:
			return &BazWrap{msg, cause}
		default:
			return &ZedWrap{msg, cause}
		}
	}
}

// MigTypeName returns reflect.TypeOf(x).String() of the given name and form.
func MigTypeName(name, form int) string {
	switch form {
	case FormVal:
		return "gen." + MigNames[name] + "Leaf"
	case FormPtr:
		return "*gen." + MigNames[name] + "LeafP"
	default:
		return "*gen." + MigNames[name] + "Wrap"
	}
}

// MigPkgPath is the package path of the migration types.
const MigPkgPath = "errsim/gen"

// MigBuildName is the name under which LMig/WMig nodes are built; the C17
// scenario sets it to the current type name of the building code version.
var MigBuildName = MigFoo

// MigCode returns the Code field of a pointer-form leaf (-1 if e is none).
func MigCode(e error) int {
	switch x := e.(type) {
	case *FooLeafP:
		return x.Code
	case *BarLeafP:
		return x.Code
	case *QuxLeafP:
		return x.Code
	case *BazLeafP:
		return x.Code
	case *ZedLeafP:
		return x.Code
	}
	return -1
}

// MigNewP builds a pointer-form leaf with an explicit code.
func MigNewP(name int, msg string, code int) error {
	e := MigNew(name, FormPtr, msg, nil)
	switch x := e.(type) {
	case *FooLeafP:
		x.Code = code
	case *BarLeafP:
		x.Code = code
	case *QuxLeafP:
		x.Code = code
	case *BazLeafP:
		x.Code = code
	case *ZedLeafP:
		x.Code = code
	}
	return e
}

// XBarV / XBarP: renames that also change the receiver kind. XBarV (used by
// value) was "*gen.XFooP" (used by pointer); XBarP (pointer) was "gen.XFooV".
type XBarV struct{ Msg string }
type XBarP struct{ Msg string }

func (e XBarV) Error() string  { return e.Msg }
func (e *XBarP) Error() string { return e.Msg }

// XNilBar is a renamed type (was "*gen.XNilFoo") whose methods work on a nil
// receiver: programs use its typed nil pointer as a sentinel value.
type XNilBar struct{ Msg string }

func (e *XNilBar) Error() string {
	if e == nil {
		return "TKUnilQ (nil receiver)"
	}
	return e.Msg
}

// XPathErr is what a program renamed io/fs.PathError to (a type the library
// itself declares as renamed from os.PathError).
type XPathErr struct{ Msg string }

func (e *XPathErr) Error() string { return e.Msg }

// XCode is a renamed error type of basic kind (was "gen.XOldCode").
type XCode int

func (c XCode) Error() string { return fmt.Sprintf("TKUcodeQ %d", int(c)) }

// GFoo is the generic type as old code (before the rename to GBar) has it.
type GFoo[T any] struct {
	Msg string
	V   T
}

func (e *GFoo[T]) Error() string { return e.Msg }

// GBar is a renamed generic type (was "*gen.GFoo[int]" for the instantiation
// used here).
type GBar[T any] struct {
	Msg string
	V   T
}

func (e *GBar[T]) Error() string { return e.Msg }

// BarMulti is a renamed multi-cause type (was "*gen.FooMulti") with a
// decoder registered through RegisterMultiCauseDecoder.
type BarMulti struct {
	Msg  string
	Errs []error
}

func (e *BarMulti) Error() string   { return e.Msg }
func (e *BarMulti) Unwrap() []error { return e.Errs }

// MovedLeaf is a type that only changed its package path ("errsim/elsewhere"
// -> "errsim/gen"); its type string is the same before and after.
type MovedLeaf struct{ Msg string }

func (e MovedLeaf) Error() string { return e.Msg }

// MovedLeaf2 is a type that moved from package "errsim/elsewhere" to this one
// keeping its name; unlike the C17 types its migration (and a decoder) is part
// of the base registries, so it occurs in every property's trees: a live
// type whose family name differs from its current name.
type MovedLeaf2 struct{ Msg string }

func (e *MovedLeaf2) Error() string { return e.Msg }

func init() {
	errors.RegisterTypeMigration("errsim/elsewhere", "*gen.MovedLeaf2", &MovedLeaf2{})
	errors.RegisterLeafDecoder(errors.GetTypeKey(&MovedLeaf2{}), func(_ context.Context, msg string, _ []string, _ proto.Message) error {
		return &MovedLeaf2{Msg: msg}
	})
}

// BarProto is an error type that is itself a protobuf message (hand-written
// gogo message: field 1 = Msg). It stands for a type renamed from
// "*gen.FooProto"; such types travel as their own payload and need no decoder.
type BarProto struct{ Msg string }

func (m *BarProto) Reset()         { *m = BarProto{} }
func (m *BarProto) String() string { return "BarProto{" + m.Msg + "}" }
func (*BarProto) ProtoMessage()    {}
func (m *BarProto) Error() string  { return m.Msg }

// Marshal implements proto.Marshaler.
func (m *BarProto) Marshal() ([]byte, error) {
	if m.Msg == "" {
		return nil, nil
	}
	out := []byte{0x0a}
	n := uint64(len(m.Msg))
	for n >= 0x80 {
		out = append(out, byte(n)|0x80)
		n >>= 7
	}
	out = append(out, byte(n))
	return append(out, m.Msg...), nil
}

// Unmarshal implements proto.Unmarshaler.
func (m *BarProto) Unmarshal(b []byte) error {
	m.Msg = ""
	if len(b) == 0 {
		return nil
	}
	if b[0] != 0x0a {
		return fmt.Errorf("BarProto: unexpected tag %x", b[0])
	}
	var n uint64
	i, shift := 1, uint(0)
	for ; i < len(b); i++ {
		n |= uint64(b[i]&0x7f) << shift
		shift += 7
		if b[i] < 0x80 {
			i++
			break
		}
	}
	if uint64(len(b)-i) < n {
		return fmt.Errorf("BarProto: truncated")
	}
	m.Msg = string(b[i : i+int(n)])
	return nil
}

func init() { proto.RegisterType((*BarProto)(nil), "errsim.BarProto") }
