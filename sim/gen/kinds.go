package gen

import (
	"context"
	goerrors "errors"
	"fmt"
	"io"
	"net"
	"os"
	"syscall"

	"github.com/cockroachdb/errors"
	"github.com/cockroachdb/errors/barriers"
	"github.com/cockroachdb/errors/domains"
	"github.com/cockroachdb/errors/errorspb"
	"github.com/cockroachdb/errors/extgrpc"
	"github.com/cockroachdb/errors/exthttp"
	"github.com/cockroachdb/errors/join"
	crdbstatus "github.com/cockroachdb/errors/grpc/status"
	"github.com/cockroachdb/logtags"
	gogostatus "github.com/gogo/status"
	pkgerrors "github.com/pkg/errors"
	"google.golang.org/grpc/codes"
	grpcstatus "google.golang.org/grpc/status"
)

// Kind identifies a constructor.
type Kind int

// Group is a bitmask classifying constructors.
type Group uint32

// Groups.
const (
	GLib Group = 1 << iota
	GStd
	GPkg
	GOS
	GNet
	GGrpc
	GUser
	GBarrier
	GSecondary
	GMark
	GMulti
	GStack
	GAnnot
	GSentinel
	GFmtArgs // takes printf arguments (which may include hidden error args)
)

// Arity of a kind.
const (
	Leaf  = 0
	Wrap  = 1
	Multi = -1
)

// Kinds. Leaves first, the simplest first.
const (
	LNew Kind = iota
	LGo
	LNewf
	LAssertf
	LUnimpl
	LUnimplf
	LFmt
	LPkg
	LPkgf
	LSentinel
	LErrno
	LDNS
	LAddr
	LGrpc
	LGogo
	LTestErr
	LStatusErr
	LDomNew
	LUPtr
	LUVal
	LUIs
	LUIsStd
	LUReg
	LUSafe
	LUOptLeaf
	LUBadProto
	LUMoved
	LUZeroA
	LUZeroB
	// barriers: leaves with a hidden error
	LHandled
	LOpaque
	LHandledMsg
	LHandledDom
	LHandledDomMsg
	LDomHandled
	LHandleAssert
	LAssertWrapped
	LHandledMsgf
	LStatusErrf
	// wrappers
	WWrap
	WWrapf
	WMessage
	WMessagef
	WNewfW
	WStack
	WHint
	WHintf
	WDetail
	WDetailf
	WSafeDetails
	WTelemetry
	WDomain
	WIssueLink
	WTags
	WAssert
	WMark
	WSecondary
	WCombine
	WHTTP
	WGrpcCode
	WStatusWrap
	WPkgWrap
	WPkgMessage
	WPkgStack
	WFmtW
	WFmtW2
	WPath
	WLink
	WSyscall
	WOpErr
	WUPrefix
	WUCause
	WUFull
	WUFmt
	WUReg
	WUOpt
	WFmtBare
	WUNote
	WUFullEmpty
	WUBadProto
	WUStack
	WStackEmpty
	WStatusWrapf
	// multi-cause
	MJoin
	MStdJoin
	MFmt
	MUMulti
	MUMultiReg
	MJoinBare
	MUMultiDecl
	// C17 only (never drawn by the generator: weight -1)
	LMig
	WMig
	// a leaf standing for an error value handed to the builder (GivenErr)
	LGiven
	NumKinds
)

// GivenErr is the value LGiven nodes stand for (set by a scenario right
// before it builds a spec containing such a node).
var GivenErr error

// Sentinels is the pool of well-known sentinel errors.
var Sentinels = []error{
	context.Canceled, context.DeadlineExceeded, io.EOF, io.ErrUnexpectedEOF,
	os.ErrInvalid, os.ErrPermission, os.ErrExist, os.ErrNotExist, os.ErrClosed, os.ErrNoDeadline,
	net.ErrClosed, HarnessSentinel, HarnessSentinel2,
}

// SentinelNames is parallel to Sentinels.
var SentinelNames = []string{
	"context.Canceled", "context.DeadlineExceeded", "io.EOF", "io.ErrUnexpectedEOF",
	"os.ErrInvalid", "os.ErrPermission", "os.ErrExist", "os.ErrNotExist", "os.ErrClosed", "os.ErrNoDeadline",
	"net.ErrClosed", "HarnessSentinel", "HarnessSentinel2",
}

// Errnos is the pool of errno values.
var Errnos = []syscall.Errno{
	syscall.ENOENT, syscall.EEXIST, syscall.EACCES, syscall.EPERM, syscall.EAGAIN,
	syscall.ETIMEDOUT, syscall.EINTR, syscall.ECONNREFUSED, syscall.EINVAL, syscall.EIO,
}

type uAddr string

func (a uAddr) Network() string { return "sim" }
func (a uAddr) String() string  { return string(a) }

// KindInfo describes a constructor.
type KindInfo struct {
	Name   string
	Arity  int
	NHid   int // hidden sub-trees besides error arguments
	Groups Group
	Weight int
	// slots
	Slots string // one letter per string slot: S safe, U unsafe, N neutral (neither claimed)
	Args  bool   // takes printf args
	NInts []int  // upper bounds of int slots
	Tags  bool
	build func(n *Node, kids, hid []error) error
}

var kinds [NumKinds]KindInfo

// onMark is set by a Builder while it builds, to record Mark references.
var onMark func(layer, ref error)

// Info returns the description of a kind.
func Info(k Kind) *KindInfo { return &kinds[k] }

// Name returns the name of a kind.
func (k Kind) String() string { return kinds[k].Name }

// code maps a drawn int to a gRPC code: the 16 predefined non-OK codes and a
// few application-defined ones above them.
func code(n int) codes.Code {
	if n == 20 {
		// only WrapWithGrpcCode draws this: an explicitly attached OK
		return codes.OK
	}
	return codes.Code(1 + n%20)
}

// HTTPCode maps a drawn integer to an HTTP code: mostly the integer itself,
// with the boundary value 0 (an all-default payload on the wire) at 1/20.
func HTTPCode(n int) int {
	if n%20 == 7 {
		return 0
	}
	return n
}

// Code is code() for other packages.
func Code(n int) codes.Code { return code(n) }

func init() {
	def := func(k Kind, ki KindInfo) {
		if ki.Weight == 0 {
			ki.Weight = 4
		}
		kinds[k] = ki
	}
	// ---------------- leaves
	def(LNew, KindInfo{Slots: "S", Name: "errors.New", Groups: GLib | GStack, Weight: 10,
		build: func(n *Node, _, _ []error) error { return mkNew(n.S[0].V) }})
	def(LGo, KindInfo{Slots: "U", Name: "goerrors.New", Groups: GStd, Weight: 8,
		build: func(n *Node, _, _ []error) error { return goerrors.New(n.S[0].V) }})
	def(LNewf, KindInfo{Slots: "S", Name: "errors.Newf", Groups: GLib | GStack | GFmtArgs, Args: true, Weight: 8,
		build: func(n *Node, _, hid []error) error {
			f, a := fmtArgs(n.S[0], n.A, hid)
			return mkNewf(f, a)
		}})
	def(LAssertf, KindInfo{Slots: "S", Name: "errors.AssertionFailedf", Groups: GLib | GStack | GFmtArgs | GAnnot, Args: true,
		build: func(n *Node, _, hid []error) error {
			f, a := fmtArgs(n.S[0], n.A, hid)
			return mkAssertf(f, a)
		}})
	def(LUnimpl, KindInfo{Slots: "SSN", Name: "errors.UnimplementedError", Groups: GLib | GAnnot,
		build: func(n *Node, _, _ []error) error {
			return errors.UnimplementedError(errors.IssueLink{IssueURL: n.S[0].V, Detail: n.S[1].V}, n.S[2].V)
		}})
	// (the message of the f variant is a format argument not wrapped in Safe())
	def(LUnimplf, KindInfo{Slots: "SSU", Name: "errors.UnimplementedErrorf", Groups: GLib | GAnnot, Weight: 2,
		build: func(n *Node, _, _ []error) error {
			return errors.UnimplementedErrorf(errors.IssueLink{IssueURL: n.S[0].V, Detail: n.S[1].V}, "%s", n.S[2].V)
		}})
	def(LFmt, KindInfo{Slots: "U", Name: "fmt.Errorf", Groups: GStd, NInts: []int{100},
		build: func(n *Node, _, _ []error) error { return fmt.Errorf("%s %d", n.S[0].V, n.N[0]) }})
	def(LPkg, KindInfo{Slots: "U", Name: "pkgerrors.New", Groups: GPkg | GStack,
		build: func(n *Node, _, _ []error) error { return mkPkgNew(n.S[0].V) }})
	def(LPkgf, KindInfo{Slots: "U", Name: "pkgerrors.Errorf", Groups: GPkg | GStack, Weight: 2,
		build: func(n *Node, _, _ []error) error { return pkgerrors.Errorf("%s", n.S[0].V) }})
	def(LSentinel, KindInfo{Name: "sentinel", Groups: GStd | GSentinel, NInts: []int{len(Sentinels)}, Weight: 8,
		build: func(n *Node, _, _ []error) error { return Sentinels[n.N[0]] }})
	def(LErrno, KindInfo{Name: "syscall.Errno", Groups: GOS, NInts: []int{len(Errnos)},
		build: func(n *Node, _, _ []error) error { return Errnos[n.N[0]] }})
	def(LDNS, KindInfo{Slots: "UU", Name: "net.DNSError", Groups: GNet, NInts: []int{2}, Weight: 2,
		build: func(n *Node, _, _ []error) error {
			return &net.DNSError{Err: n.S[0].V, Name: n.S[1].V, IsTimeout: n.N[0] == 1}
		}})
	def(LAddr, KindInfo{Slots: "UU", Name: "net.AddrError", Groups: GNet, Weight: 2,
		build: func(n *Node, _, _ []error) error { return &net.AddrError{Err: n.S[0].V, Addr: n.S[1].V} }})
	def(LGrpc, KindInfo{Slots: "U", Name: "grpcstatus.Error", Groups: GGrpc, NInts: []int{20}, Weight: 3,
		build: func(n *Node, _, _ []error) error { return grpcstatus.Error(code(n.N[0]), n.S[0].V) }})
	def(LGogo, KindInfo{Slots: "U", Name: "gogostatus.Error", Groups: GGrpc, NInts: []int{20}, Weight: 3,
		build: func(n *Node, _, _ []error) error { return gogostatus.Error(code(n.N[0]), n.S[0].V) }})
	def(LTestErr, KindInfo{Name: "errorspb.TestError", Groups: GLib, Weight: 1,
		build: func(n *Node, _, _ []error) error { return &errorspb.TestError{} }})
	def(LStatusErr, KindInfo{Slots: "S", Name: "crdbstatus.Error", Groups: GLib | GGrpc | GStack | GAnnot, NInts: []int{20}, Weight: 2,
		build: func(n *Node, _, _ []error) error { return crdbstatus.Error(code(n.N[0]), n.S[0].V) }})
	def(LDomNew, KindInfo{Slots: "U", Name: "domains.New", Groups: GLib | GAnnot, Weight: 2,
		build: func(n *Node, _, _ []error) error { return domains.New(n.S[0].V) }})
	def(LUPtr, KindInfo{Slots: "U", Name: "uLeafPtr", Groups: GUser,
		build: func(n *Node, _, _ []error) error { return &ULeafPtr{Msg: n.S[0].V} }})
	def(LUVal, KindInfo{Slots: "U", Name: "uLeafVal", Groups: GUser, Weight: 3,
		build: func(n *Node, _, _ []error) error { return ULeafVal{Msg: n.S[0].V, Extra: []int{1}} }})
	def(LUIs, KindInfo{Slots: "U", Name: "uLeafIs", Groups: GUser, Weight: 3,
		build: func(n *Node, _, _ []error) error { return &ULeafIs{Msg: n.S[0].V} }})
	def(LUIsStd, KindInfo{Slots: "U", Name: "uLeafIsStd", Groups: GUser, Weight: 2,
		build: func(n *Node, _, _ []error) error { return &ULeafIsStd{Msg: n.S[0].V} }})
	def(LUReg, KindInfo{Slots: "U", Name: "uLeafReg", Groups: GUser, NInts: []int{1000},
		build: func(n *Node, _, _ []error) error { return &ULeafReg{Msg: n.S[0].V, Code: n.N[0]} }})
	def(LUSafe, KindInfo{Slots: "NU", Name: "uLeafSafe", Groups: GUser, Weight: 3,
		build: func(n *Node, _, _ []error) error { return &ULeafSafe{SafePart: n.S[0].V, UnsafePart: n.S[1].V} }})
	def(LUBadProto, KindInfo{Slots: "U", Name: "uLeafBadProto", Groups: GUser, Weight: 2,
		build: func(n *Node, _, _ []error) error { return &ULeafBadProto{Msg: n.S[0].V} }})
	def(LUMoved, KindInfo{Slots: "U", Name: "uMovedLeaf", Groups: GUser, Weight: 3,
		build: func(n *Node, _, _ []error) error { return &MovedLeaf2{Msg: n.S[0].V} }})
	def(LUZeroA, KindInfo{Name: "uZeroA", Groups: GUser, Weight: 2,
		build: func(n *Node, _, _ []error) error { return &UZeroA{} }})
	def(LUZeroB, KindInfo{Name: "uZeroB", Groups: GUser, Weight: 2,
		build: func(n *Node, _, _ []error) error { return &UZeroB{} }})
	def(LUOptLeaf, KindInfo{Slots: "U", Name: "uWrapOpt(nil)", Groups: GUser, Weight: 2,
		build: func(n *Node, _, _ []error) error { return &UWrapOpt{Msg: n.S[0].V} }})
	// ---------------- barriers
	def(LHandled, KindInfo{Name: "errors.Handled", Groups: GLib | GBarrier, NHid: 1,
		build: func(n *Node, _, hid []error) error { return errors.Handled(hid[0]) }})
	def(LOpaque, KindInfo{Name: "errors.Opaque", Groups: GLib | GBarrier, NHid: 1, Weight: 2,
		build: func(n *Node, _, hid []error) error { return errors.Opaque(hid[0]) }})
	def(LHandledMsg, KindInfo{Slots: "U", Name: "errors.HandledWithMessage", Groups: GLib | GBarrier, NHid: 1,
		build: func(n *Node, _, hid []error) error { return errors.HandledWithMessage(hid[0], n.S[0].V) }})
	def(LHandledDom, KindInfo{Slots: "S", Name: "errors.HandledInDomain", Groups: GLib | GBarrier | GAnnot, NHid: 1, Weight: 2,
		build: func(n *Node, _, hid []error) error {
			return errors.HandledInDomain(hid[0], errors.NamedDomain(n.S[0].V))
		}})
	def(LHandledDomMsg, KindInfo{Slots: "SU", Name: "errors.HandledInDomainWithMessage", Groups: GLib | GBarrier | GAnnot, NHid: 1, Weight: 2,
		build: func(n *Node, _, hid []error) error {
			return errors.HandledInDomainWithMessage(hid[0], errors.NamedDomain(n.S[0].V), n.S[1].V)
		}})
	def(LDomHandled, KindInfo{Name: "domains.Handled", Groups: GLib | GBarrier | GAnnot, NHid: 1, Weight: 2,
		build: func(n *Node, _, hid []error) error { return domains.Handled(hid[0]) }})
	def(LHandleAssert, KindInfo{Name: "errors.HandleAsAssertionFailure", Groups: GLib | GBarrier | GStack | GAnnot, NHid: 1, Weight: 2,
		build: func(n *Node, _, hid []error) error { return mkHandleAssert(hid[0]) }})
	def(LAssertWrapped, KindInfo{Slots: "S", Name: "errors.NewAssertionErrorWithWrappedErrf", Groups: GLib | GBarrier | GStack | GAnnot | GFmtArgs, NHid: 1, Args: true, Weight: 2,
		build: func(n *Node, _, hid []error) error {
			f, a := fmtArgs(n.S[0], n.A, hid)
			return errors.NewAssertionErrorWithWrappedErrf(hid[0], f, a...)
		}})
	def(LHandledMsgf, KindInfo{Slots: "S", Name: "barriers.HandledWithMessagef", Groups: GLib | GBarrier | GFmtArgs, NHid: 1, Args: true, Weight: 2,
		build: func(n *Node, _, hid []error) error {
			f, a := fmtArgs(n.S[0], n.A, hid)
			return barriers.HandledWithMessagef(hid[0], f, a...)
		}})
	def(LStatusErrf, KindInfo{Slots: "S", Name: "crdbstatus.Errorf", Groups: GLib | GGrpc | GStack | GAnnot | GFmtArgs, NInts: []int{20}, Args: true, Weight: 2,
		build: func(n *Node, _, hid []error) error {
			f, a := fmtArgs(n.S[0], n.A, hid)
			return crdbstatus.Errorf(code(n.N[0]), f, a...)
		}})
	// ---------------- wrappers
	def(WWrap, KindInfo{Slots: "S", Name: "errors.Wrap", Arity: Wrap, Groups: GLib | GStack, Weight: 10,
		build: func(n *Node, k, _ []error) error { return mkWrap(k[0], n.S[0].V) }})
	def(WWrapf, KindInfo{Slots: "S", Name: "errors.Wrapf", Arity: Wrap, Groups: GLib | GStack | GFmtArgs, Args: true, Weight: 8,
		build: func(n *Node, k, hid []error) error {
			f, a := fmtArgs(n.S[0], n.A, hid)
			return mkWrapf(k[0], f, a)
		}})
	def(WMessage, KindInfo{Slots: "S", Name: "errors.WithMessage", Arity: Wrap, Groups: GLib,
		build: func(n *Node, k, _ []error) error { return errors.WithMessage(k[0], n.S[0].V) }})
	def(WMessagef, KindInfo{Slots: "S", Name: "errors.WithMessagef", Arity: Wrap, Groups: GLib | GFmtArgs, Args: true, Weight: 3,
		build: func(n *Node, k, hid []error) error {
			f, a := fmtArgs(n.S[0], n.A, hid)
			return errors.WithMessagef(k[0], f, a...)
		}})
	def(WNewfW, KindInfo{Slots: "SS", Name: "errors.Newf(%w)", Arity: Wrap, Groups: GLib | GStack | GFmtArgs, NInts: []int{3}, Args: true, Weight: 6,
		build: func(n *Node, k, hid []error) error {
			// position of %w: 0 = end ("lit args: %w"), 1 = middle, 2 = start;
			// further printf arguments (possibly errors) follow the literal
			f, a := fmtArgs(n.S[0], n.A, hid)
			switch n.N[0] {
			case 0:
				return errors.Newf(f+" "+escFmt(n.S[1].V)+": %w", append(a, k[0])...)
			case 1:
				return errors.Newf(f+" %w "+escFmt(n.S[1].V), append(a, k[0])...)
			default:
				return errors.Newf("%w "+escFmt(n.S[1].V)+" "+f, append([]interface{}{k[0]}, a...)...)
			}
		}})
	def(WStack, KindInfo{Name: "errors.WithStack", Arity: Wrap, Groups: GLib | GStack,
		build: func(n *Node, k, _ []error) error { return mkWithStack(k[0]) }})
	// a stack annotation that captured nothing (depth beyond the call stack)
	def(WStackEmpty, KindInfo{Name: "errors.WithStackDepth(1000)", Arity: Wrap, Groups: GLib | GStack, Weight: 1,
		build: func(n *Node, k, _ []error) error { return errors.WithStackDepth(k[0], 1000) }})
	def(WHint, KindInfo{Slots: "U", Name: "errors.WithHint", Arity: Wrap, Groups: GLib | GAnnot,
		build: func(n *Node, k, _ []error) error { return errors.WithHint(k[0], n.S[0].V) }})
	def(WHintf, KindInfo{Slots: "UU", Name: "errors.WithHintf", Arity: Wrap, Groups: GLib | GAnnot, Weight: 2,
		build: func(n *Node, k, _ []error) error { return errors.WithHintf(k[0], escFmt(n.S[0].V)+" %s", n.S[1].V) }})
	def(WDetail, KindInfo{Slots: "U", Name: "errors.WithDetail", Arity: Wrap, Groups: GLib | GAnnot,
		build: func(n *Node, k, _ []error) error { return errors.WithDetail(k[0], n.S[0].V) }})
	def(WDetailf, KindInfo{Slots: "UU", Name: "errors.WithDetailf", Arity: Wrap, Groups: GLib | GAnnot, Weight: 2,
		build: func(n *Node, k, _ []error) error { return errors.WithDetailf(k[0], escFmt(n.S[0].V)+" %s", n.S[1].V) }})
	def(WSafeDetails, KindInfo{Slots: "S", Name: "errors.WithSafeDetails", Arity: Wrap, Groups: GLib | GAnnot, Args: true,
		build: func(n *Node, k, hid []error) error {
			f, a := fmtArgs(n.S[0], n.A, hid)
			if n.S[0].V == "" && len(a) > 0 {
				f = ""
			}
			return errors.WithSafeDetails(k[0], f, a...)
		}})
	def(WTelemetry, KindInfo{Slots: "SS", Name: "errors.WithTelemetry", Arity: Wrap, Groups: GLib | GAnnot,
		build: func(n *Node, k, _ []error) error {
			var keys []string
			for _, s := range n.S {
				if s.V != "" {
					keys = append(keys, s.V)
				}
			}
			return errors.WithTelemetry(k[0], keys...)
		}})
	def(WDomain, KindInfo{Slots: "S", Name: "errors.WithDomain", Arity: Wrap, Groups: GLib | GAnnot,
		build: func(n *Node, k, _ []error) error {
			if n.S[0].V == "" {
				if n.S[0].Neutral {
					// a zero-value domain
					return errors.WithDomain(k[0], errors.Domain(""))
				}
				// an explicit "no domain" annotation
				return errors.WithDomain(k[0], errors.NoDomain)
			}
			return errors.WithDomain(k[0], errors.NamedDomain(n.S[0].V))
		}})
	def(WIssueLink, KindInfo{Slots: "SS", Name: "errors.WithIssueLink", Arity: Wrap, Groups: GLib | GAnnot,
		build: func(n *Node, k, _ []error) error {
			return errors.WithIssueLink(k[0], errors.IssueLink{IssueURL: n.S[0].V, Detail: n.S[1].V})
		}})
	def(WTags, KindInfo{Name: "errors.WithContextTags", Arity: Wrap, Groups: GLib | GAnnot, Tags: true,
		build: func(n *Node, k, _ []error) error {
			ctx := context.Background()
			for _, t := range n.T {
				var v interface{}
				switch t.Val.Kind {
				case ArgUnsafeStr:
					v = t.Val.S.V
				case ArgSafeStr:
					v = errors.Safe(t.Val.S.V)
				case ArgStringer:
					v = UStringer{V: t.Val.S.V}
				case ArgInt:
					if t.Val.N >= 0 {
						v = t.Val.N
					}
				}
				ctx = logtags.AddTag(ctx, t.Key.V, v)
			}
			return errors.WithContextTags(k[0], ctx)
		}})
	def(WAssert, KindInfo{Name: "errors.WithAssertionFailure", Arity: Wrap, Groups: GLib | GAnnot, Weight: 3,
		build: func(n *Node, k, _ []error) error { return errors.WithAssertionFailure(k[0]) }})
	def(WMark, KindInfo{Name: "errors.Mark", Arity: Wrap, Groups: GLib | GMark, NHid: 1,
		build: func(n *Node, k, hid []error) error {
			e := errors.Mark(k[0], hid[0])
			if onMark != nil {
				onMark(e, hid[0])
			}
			return e
		}})
	def(WSecondary, KindInfo{Name: "errors.WithSecondaryError", Arity: Wrap, Groups: GLib | GSecondary, NHid: 1,
		build: func(n *Node, k, hid []error) error { return errors.WithSecondaryError(k[0], hid[0]) }})
	def(WCombine, KindInfo{Name: "errors.CombineErrors", Arity: Wrap, Groups: GLib | GSecondary, NHid: 1, Weight: 2,
		build: func(n *Node, k, hid []error) error { return errors.CombineErrors(k[0], hid[0]) }})
	def(WHTTP, KindInfo{Name: "exthttp.WrapWithHTTPCode", Arity: Wrap, Groups: GLib | GAnnot, NInts: []int{600}, Weight: 3,
		build: func(n *Node, k, _ []error) error { return exthttp.WrapWithHTTPCode(k[0], HTTPCode(n.N[0])) }})
	def(WGrpcCode, KindInfo{Name: "extgrpc.WrapWithGrpcCode", Arity: Wrap, Groups: GLib | GGrpc | GAnnot, NInts: []int{21}, Weight: 3,
		build: func(n *Node, k, _ []error) error { return extgrpc.WrapWithGrpcCode(k[0], code(n.N[0])) }})
	def(WStatusWrap, KindInfo{Slots: "S", Name: "crdbstatus.WrapErr", Arity: Wrap, Groups: GLib | GGrpc | GStack | GAnnot, NInts: []int{20}, Weight: 2,
		build: func(n *Node, k, _ []error) error { return crdbstatus.WrapErr(code(n.N[0]), n.S[0].V, k[0]) }})
	def(WPkgWrap, KindInfo{Slots: "U", Name: "pkgerrors.Wrap", Arity: Wrap, Groups: GPkg | GStack,
		build: func(n *Node, k, _ []error) error { return pkgerrors.Wrap(k[0], n.S[0].V) }})
	def(WPkgMessage, KindInfo{Slots: "U", Name: "pkgerrors.WithMessage", Arity: Wrap, Groups: GPkg, Weight: 3,
		build: func(n *Node, k, _ []error) error { return pkgerrors.WithMessage(k[0], n.S[0].V) }})
	def(WPkgStack, KindInfo{Name: "pkgerrors.WithStack", Arity: Wrap, Groups: GPkg | GStack, Weight: 3,
		build: func(n *Node, k, _ []error) error { return pkgerrors.WithStack(k[0]) }})
	def(WFmtW, KindInfo{Slots: "U", Name: "fmt.Errorf(: %w)", Arity: Wrap, Groups: GStd, Weight: 5,
		build: func(n *Node, k, _ []error) error { return fmt.Errorf(escFmt(n.S[0].V)+": %w", k[0]) }})
	def(WFmtW2, KindInfo{Slots: "UU", Name: "fmt.Errorf(%w mid)", Arity: Wrap, Groups: GStd, Weight: 3,
		build: func(n *Node, k, _ []error) error {
			return fmt.Errorf(escFmt(n.S[0].V)+" %w "+escFmt(n.S[1].V), k[0])
		}})
	def(WPath, KindInfo{Slots: "NU", Name: "os.PathError", Arity: Wrap, Groups: GOS, Weight: 3,
		build: func(n *Node, k, _ []error) error { return &os.PathError{Op: n.S[0].V, Path: n.S[1].V, Err: k[0]} }})
	def(WLink, KindInfo{Slots: "NUU", Name: "os.LinkError", Arity: Wrap, Groups: GOS, Weight: 2,
		build: func(n *Node, k, _ []error) error {
			return &os.LinkError{Op: n.S[0].V, Old: n.S[1].V, New: n.S[2].V, Err: k[0]}
		}})
	def(WSyscall, KindInfo{Slots: "N", Name: "os.SyscallError", Arity: Wrap, Groups: GOS, Weight: 2,
		build: func(n *Node, k, _ []error) error { return os.NewSyscallError(n.S[0].V, k[0]) }})
	def(WOpErr, KindInfo{Slots: "NNUU", Name: "net.OpError", Arity: Wrap, Groups: GNet, NInts: []int{4}, Weight: 2,
		build: func(n *Node, k, _ []error) error {
			e := &net.OpError{Op: n.S[0].V, Net: n.S[1].V, Err: k[0]}
			if n.N[0]&1 != 0 {
				e.Source = uAddr(n.S[2].V)
			}
			if n.N[0]&2 != 0 {
				e.Addr = uAddr(n.S[3].V)
			}
			return e
		}})
	def(WUPrefix, KindInfo{Slots: "U", Name: "uWrapPrefix", Arity: Wrap, Groups: GUser,
		build: func(n *Node, k, _ []error) error { return &UWrapPrefix{Msg: n.S[0].V, Cause: k[0]} }})
	def(WUCause, KindInfo{Slots: "U", Name: "uWrapCause", Arity: Wrap, Groups: GUser, Weight: 3,
		build: func(n *Node, k, _ []error) error { return &UWrapCause{Msg: n.S[0].V, C: k[0]} }})
	def(WUFull, KindInfo{Slots: "U", Name: "uWrapFull", Arity: Wrap, Groups: GUser, Weight: 3,
		build: func(n *Node, k, _ []error) error { return &UWrapFull{Msg: n.S[0].V, Cause: k[0]} }})
	def(WUFmt, KindInfo{Slots: "UU", Name: "uWrapFmt", Arity: Wrap, Groups: GUser, Weight: 3,
		build: func(n *Node, k, _ []error) error { return &UWrapFmt{Msg: n.S[0].V, Detail: n.S[1].V, Cause: k[0]} }})
	def(WUReg, KindInfo{Slots: "U", Name: "uWrapReg", Arity: Wrap, Groups: GUser, NInts: []int{1000},
		build: func(n *Node, k, _ []error) error { return &UWrapReg{Msg: n.S[0].V, Code: n.N[0], Cause: k[0]} }})
	def(WUBadProto, KindInfo{Slots: "U", Name: "uWrapBadProto", Arity: Wrap, Groups: GUser, Weight: 2,
		build: func(n *Node, kids, _ []error) error { return &UWrapBadProto{Msg: n.S[0].V, Cause: kids[0]} }})
	// enabled by Config.UserStack only: its stack does not survive a hop
	def(WUStack, KindInfo{Slots: "U", Name: "uWrapStack", Arity: Wrap, Groups: GUser | GStack, Weight: 6,
		build: func(n *Node, kids, _ []error) error { return NewUWrapStack(kids[0], n.S[0].V) }})
	def(WUOpt, KindInfo{Slots: "U", Name: "uWrapOpt", Arity: Wrap, Groups: GUser, Weight: 2,
		build: func(n *Node, k, _ []error) error { return &UWrapOpt{Msg: n.S[0].V, Cause: k[0]} }})
	def(WFmtBare, KindInfo{Name: "fmt.Errorf(%w)", Arity: Wrap, Groups: GStd, Weight: 2,
		build: func(n *Node, k, _ []error) error { return fmt.Errorf("%w", k[0]) }})
	def(WUNote, KindInfo{Slots: "U", Name: "uWrapNote", Arity: Wrap, Groups: GUser, NInts: []int{2}, Weight: 2,
		build: func(n *Node, k, _ []error) error {
			if n.N[0] == 0 {
				return &UWrapNote{Cause: k[0]}
			}
			return &UWrapNote{Note: n.S[0].V, Cause: k[0]}
		}})
	def(WStatusWrapf, KindInfo{Slots: "S", Name: "crdbstatus.WrapErrf", Arity: Wrap, Groups: GLib | GGrpc | GStack | GAnnot | GFmtArgs, NInts: []int{20}, Args: true, Weight: 2,
		build: func(n *Node, k, hid []error) error {
			f, a := fmtArgs(n.S[0], n.A, hid)
			return crdbstatus.WrapErrf(code(n.N[0]), k[0], f, a...)
		}})
	// a wrapper that overrides its cause's message with the empty string
	// (only enabled by properties whose quantifier does not exclude empty messages)
	def(WUFullEmpty, KindInfo{Name: "uWrapFull(empty)", Arity: Wrap, Groups: GUser, Weight: 1,
		build: func(n *Node, k, _ []error) error { return &UWrapFull{Msg: "", Cause: k[0]} }})
	// ---------------- multi-cause
	def(MJoin, KindInfo{Name: "errors.Join", Arity: Multi, Groups: GLib | GMulti | GStack, NInts: []int{4}, Weight: 5,
		build: func(n *Node, k, _ []error) error {
			// Join is handed a slice (as with errs...): the callee must
			// neither modify it nor keep it. Afterwards the slice is reused by
			// its owner (scribbled over).
			args := withNils(k, n.N[0])
			before := append([]error(nil), args...)
			e := mkJoin(args)
			for i := range args {
				if !sameErr(args[i], before[i]) {
					JoinArgMutations++
				}
				args[i] = errScribble
			}
			return e
		}})
	def(MJoinBare, KindInfo{Name: "join.Join", Arity: Multi, Groups: GLib | GMulti, NInts: []int{4}, Weight: 3,
		build: func(n *Node, k, _ []error) error { return join.Join(withNils(k, n.N[0])...) }})
	def(MUMultiDecl, KindInfo{Slots: "U", Name: "uMultiDecl", Arity: Multi, Groups: GUser | GMulti, NInts: []int{2}, Weight: 2,
		build: func(n *Node, k, _ []error) error {
			msg := n.S[0].V
			if n.N[0] == 1 {
				msg = "v2 " + msg // a form the receiving decoder declines
			}
			return &UMultiDecl{Msg: msg, Errs: k}
		}})
	def(MStdJoin, KindInfo{Name: "goerrors.Join", Arity: Multi, Groups: GStd | GMulti, NInts: []int{4}, Weight: 3,
		build: func(n *Node, k, _ []error) error { return goerrors.Join(withNils(k, n.N[0])...) }})
	def(MFmt, KindInfo{Slots: "U", Name: "fmt.Errorf(%w %w)", Arity: Multi, Groups: GStd | GMulti, Weight: 3,
		build: func(n *Node, k, _ []error) error {
			f := escFmt(n.S[0].V)
			a := make([]interface{}, len(k))
			for i := range k {
				f += " %w"
				a[i] = k[i]
			}
			return fmt.Errorf(f, a...)
		}})
	def(MUMulti, KindInfo{Slots: "U", Name: "uMulti", Arity: Multi, Groups: GUser | GMulti, Weight: 2,
		build: func(n *Node, k, _ []error) error { return &UMulti{Msg: n.S[0].V, Errs: k} }})
	def(LGiven, KindInfo{Name: "received", Groups: GStd, Weight: -1,
		build: func(n *Node, _, _ []error) error { return GivenErr }})
	def(LMig, KindInfo{Slots: "U", Name: "migLeaf", Groups: GUser, NInts: []int{2}, Weight: -1,
		build: func(n *Node, _, _ []error) error { return MigNew(MigBuildName, n.N[0], n.S[0].V, nil) }})
	def(WMig, KindInfo{Slots: "U", Name: "migWrap", Arity: Wrap, Groups: GUser, Weight: -1,
		build: func(n *Node, k, _ []error) error { return MigNew(MigBuildName, FormWrap, n.S[0].V, k[0]) }})
	def(MUMultiReg, KindInfo{Slots: "U", Name: "uMultiReg", Arity: Multi, Groups: GUser | GMulti, Weight: 2,
		build: func(n *Node, k, _ []error) error { return &UMultiReg{Msg: n.S[0].V, Errs: k} }})
}

// JoinArgMutations counts argument slices that errors.Join modified.
var JoinArgMutations int

var errScribble = goerrors.New("scribbled-by-the-owner-of-the-slice")

func sameErr(a, b error) (eq bool) {
	defer func() {
		if recover() != nil {
			eq = true // uncomparable values: cannot have been replaced by a comparable one silently
		}
	}()
	return a == b
}

// withNils interleaves nil arguments at positions selected by mask.
func withNils(k []error, mask int) []error {
	var out []error
	if mask&1 != 0 {
		out = append(out, nil)
	}
	for i, e := range k {
		out = append(out, e)
		if mask&2 != 0 && i == 0 {
			out = append(out, nil)
		}
	}
	return out
}

// fmtArgs builds a printf format and argument list.
func fmtArgs(lit Str, args []Arg, hid []error) (string, []interface{}) {
	f := escFmt(lit.V)
	front := ""
	var a, fa []interface{}
	for _, x := range args {
		verb := x.Verb
		if x.NoVerb && x.Kind == ArgErr {
			continue // (appended after every argument that has a verb)
		}
		switch x.Kind {
		case ArgUnsafeStr:
			if verb == "" {
				verb = "%s"
			}
			a = append(a, x.S.V)
		case ArgSafeStr:
			if verb == "" {
				verb = "%s"
			}
			a = append(a, errors.Safe(x.S.V))
		case ArgInt:
			if verb == "" {
				verb = "%d"
			}
			a = append(a, x.N)
		case ArgErr:
			if verb == "" {
				verb = "%v"
			}
			a = append(a, hid[x.Hid])
		case ArgSafeFmt:
			if verb == "" {
				verb = "%v"
			}
			a = append(a, UFmtArg{SafePart: x.S.V, UnsafePart: x.S2.V})
		case ArgStringer:
			if verb == "" {
				verb = "%s"
			}
			a = append(a, UStringer{V: x.S.V})
		}
		sep := " "
		if x.Glue {
			sep = ""
		}
		if x.Front {
			// (arguments are consumed in format order: keep a separate list)
			front += verb + sep
			fa = append(fa, a[len(a)-1])
			a = a[:len(a)-1]
		} else {
			f += sep + verb
		}
	}
	all := append(fa, a...)
	for _, x := range args {
		if x.NoVerb && x.Kind == ArgErr {
			all = append(all, hid[x.Hid])
		}
	}
	return front + f, all
}

// The stack-capturing constructors are called through these non-inlined
// helpers so that captured stacks carry a recognisable harness frame.

//go:noinline
func mkNew(s string) error { return errors.New(s) }

//go:noinline
func mkNewf(f string, a []interface{}) error { return errors.Newf(f, a...) }

//go:noinline
func mkAssertf(f string, a []interface{}) error { return errors.AssertionFailedf(f, a...) }

//go:noinline
func mkPkgNew(s string) error { return pkgerrors.New(s) }

//go:noinline
func mkWrap(e error, s string) error { return errors.Wrap(e, s) }

//go:noinline
func mkWrapf(e error, f string, a []interface{}) error { return errors.Wrapf(e, f, a...) }

//go:noinline
func mkWithStack(e error) error { return errors.WithStack(e) }

//go:noinline
func mkHandleAssert(e error) error { return errors.HandleAsAssertionFailure(e) }

//go:noinline
func mkJoin(k []error) error { return errors.Join(k...) }
