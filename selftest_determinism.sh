#!/usr/bin/env bash
# Determinism self-test: for every property, 40 run seeds x 2 repetitions x GOMAXPROCS in {1,4,16}
# x 2 base seeds, each in its own OS process; the digest of the event logs must be identical.
# (C18 uses the yield-instrumented binary if present.)
BIN="$1"
fail=0
for prop in C01 C02 C03 C04 C05 C06 C07 C11 C12 C13 C15 C17 C18 C20; do
  b="$BIN"
  if [ "$prop" = C18 ]; then
    b="$BIN-c18"
    [ -x "$b" ] || { echo "skip C18 (no instrumented binary; run ./check C18 once)"; continue; }
  fi
  for seed in 1 7; do
    ref=""
    for gmp in 1 4 16; do
      for rep in 1 2 3 4 5; do
        h="$(GOMAXPROCS=$gmp "$b" digest -prop "$prop" -seed "$seed" -runs 40 | tail -1)"
        if [ -z "$ref" ]; then ref="$h"; fi
        if [ "$h" != "$ref" ]; then echo "NONDETERMINISTIC $prop seed=$seed GOMAXPROCS=$gmp rep=$rep: $h vs $ref"; fail=1; fi
      done
    done
    echo "$prop seed=$seed: 15 processes agree ($ref)"
  done
done
exit $fail
