#!/usr/bin/env bash
# Runs the quick checks against a property-preserving change (scratch worktree; /repo untouched).
# Prints one line per property; any CAUGHT here is a FALSE ALARM to investigate.
#   ./eval_benign.sh <dir-with-patch.diff> [PROPS...]
set -u
HERE="$(cd "$(dirname "${BASH_SOURCE[0]}")" && pwd)"
export GOFLAGS=-mod=mod GOPROXY=off GOSUMDB=off GOTOOLCHAIN=local
D="$(cd "$1" && pwd)"; shift
PROPS=("$@")
[ ${#PROPS[@]} -eq 0 ] && PROPS=(C01 C02 C03 C04 C05 C06 C07 C11 C12 C13 C15 C17 C18 C20)
name="benign-$(basename "$D")"
W="/root/scratch/$name"
cleanup() { git -C /repo worktree remove --force "$W" >/dev/null 2>&1; rm -rf "$W" /root/scratch/ev-"$name" "$HERE"/bin/errsim-_root_scratch_"$name"*; }
trap cleanup EXIT
git -C /repo worktree remove --force "$W" >/dev/null 2>&1; rm -rf "$W"
git -C /repo worktree add -q --detach "$W" HEAD || exit 2
git -C "$W" apply "$D/patch.diff" || { echo "PATCH DOES NOT APPLY"; exit 2; }
(cd "$W" && go build ./... ) || { echo "DOES NOT BUILD"; exit 2; }
python3 "$HERE/baseline_check.py" "$W" | tail -1
for p in "${PROPS[@]}"; do
  out="$(cd "$HERE" && VERIF_REPO="$W" VERIF_EVIDENCE_DIR=/root/scratch/ev-"$name" VERIF_REPLAY_DIR=/root/scratch/rp-"$name" ./check "$p" quick 2>&1)"; rc=$?
  case $rc in
    0) echo "$p: quiet" ;;
    1) echo "$p: ALARM  $(echo "$out" | grep -E '^violation:' -A3 | head -8 | cut -c1-300 | tr '\n' ' ')" ;;
    *) echo "$p: TROUBLE rc=$rc $(echo "$out" | tail -3 | cut -c1-300 | tr '\n' ' ')" ;;
  esac
done
